// Instantiation TU: contains no logic; it only makes clang print the real template's member functions
// (OwnThreadHandler<SimplePipeline>::Worker::customEvent, LogEvent, ...) which the library TUs do not instantiate.
#include "logger.h"
template class QtLogger::OwnThreadHandler<QtLogger::SimplePipeline>;
