/* Shared part 2 of the threading units: contracts of Logger / OwnThreadHandler<SimplePipeline> members.
 * Clauses that state ONE property are wrapped in ENS_Cxx / REQ_Cxx. */
#ifdef PROP_C02
#define ENS_C02(x) __CPROVER_ensures(x)
#else
#define ENS_C02(x)
#endif
#ifdef PROP_C03
#define ENS_C03(x) __CPROVER_ensures(x)
#else
#define ENS_C03(x)
#endif
#ifdef PROP_C04
#define ENS_C04(x) __CPROVER_ensures(x)
#else
#define ENS_C04(x)
#endif
typedef OwnThreadHandler_SimplePipeline OTH;
/* same text behind two C strings (null == empty, as QByteArray(const char*) and QString::fromUtf8 treat them) */
#define SAME_CSTR_TEXT(a, b) (((a).isnull || (a).len == 0) ? ((b).isnull || (b).len == 0) : (!(b).isnull && (b).len == (a).len && (b).id == (a).id))

#define PENDING(h) ((h)->m_pendingCount._base._base.v)
#define OWN_DEPTH(h) ((h)->m_mutex._base.depth)
QAtomicPointer_Logger g_activeLogger;
voidPQtMsgType_QMessageLogContextR_QStringR g_previousMessageHandler;
/* a call through the remembered previous handler (a foreign function) */
unsigned long long g_prev_handler_calls;
static inline void call_voidPQtMsgType_QMessageLogContextR_QStringR(voidPQtMsgType_QMessageLogContextR_QStringR f, QtMsgType t, QMessageLogContext c, QString m) { g_prev_handler_calls++; }
static inline Logger *QBasicAtomicPointer_Logger_loadAcquire(QBasicAtomicPointer_Logger a) { return a.p; }
static inline void QBasicAtomicPointer_Logger_storeRelease__LoggerP(QBasicAtomicPointer_Logger *a, Logger *l) { a->p = l; }
static inline BOOL QBasicAtomicPointer_Logger_testAndSetOrdered__LoggerP_LoggerP(QBasicAtomicPointer_Logger *a, Logger *expected, Logger *nv)
{ if (a->p == expected) { a->p = nv; return 1; } return 0; }

/* ---- the wrapped pipeline run ("any pipeline": C01 says what it does) : ghost record of every run ---- */
unsigned long long g_runs; LogMessage *g_run_msg; Pipeline *g_run_on; int g_run_own_depth, g_run_pending;
QtMsgType g_run_type; QString g_run_text; int g_run_line; cstr g_run_file;      /* what the pipeline run was given */
BOOL Pipeline_process(Pipeline *self, LogMessage *lmsg)
__CPROVER_assigns(g_runs, g_run_msg, g_run_on, g_run_own_depth, g_run_pending, g_run_type, g_run_text, g_run_line, g_run_file, lmsg->m_formattedMessage, lmsg->m_attributes)
__CPROVER_ensures(g_runs == __CPROVER_old(g_runs) + 1 && g_run_msg == lmsg && g_run_on == self && IS_BOOL(__CPROVER_return_value))
__CPROVER_ensures(g_run_type == lmsg->m_type && QSTRING_SAME(g_run_text, lmsg->m_message) && g_run_text.id == lmsg->m_message.id && g_run_line == lmsg->m_context.line && SAME_CSTR_TEXT(lmsg->m_context.file, g_run_file))
__CPROVER_ensures(g_run_own_depth == ((OTH *)self)->m_mutex._base.depth && g_run_pending == PENDING((OTH *)self));

/* ---- LogMessage(const LogMessage &): every field equal; source-location strings re-homed into the copy's OWN buffers ---- */
int g_buf_ids;                                                  /* every QByteArray(const char*) allocates a NEW buffer: ghost buffer identity */
static inline QByteArray QByteArray_ctor__cstr(cstr c)          /* QByteArray(const char*): deep copy; null pointer -> empty */
{ QByteArray b; b.isnull = c.isnull; b.id = c.isnull ? 0 : c.id; b.len = c.isnull ? 0 : c.len; if (g_buf_ids < 1000000000) g_buf_ids++; b.owner = g_buf_ids; return b; }
/* QByteArray(const char*, int n): the first n bytes (n < 0: up to the terminator); a shorter prefix is ANOTHER text */
static inline QByteArray QByteArray_ctor__cstr_int(cstr c, int n)
{ QByteArray b = QByteArray_ctor__cstr(c); if (!c.isnull && n >= 0 && n < c.len) { b.len = n; b.id = nondet_int(); __CPROVER_assume(b.id != c.id); } return b; }
static inline unsigned int qstrnlen__cstr_unsignedint(cstr c, unsigned int maxlen) { if (c.isnull) return 0u; return (unsigned int)c.len < maxlen ? (unsigned int)c.len : maxlen; }
static inline unsigned int qstrlen__cstr(cstr c) { return c.isnull ? 0u : (unsigned int)c.len; }
static inline unsigned long strlen__cstr(cstr c) { return (unsigned long)c.len; }
static inline unsigned long strnlen__cstr_unsignedlong(cstr c, unsigned long maxlen) { return (unsigned long)c.len < maxlen ? (unsigned long)c.len : maxlen; }
static inline cstr QByteArray_constData(QByteArray b)          /* pointer INTO the byte array's own buffer (never null) */
{ cstr c; c.isnull = 0; c.id = b.id; c.len = b.len; c.owner = b.owner; c.ptr = 0; return c; }
void LogMessage_ctor__LogMessage(LogMessage *self, LogMessage *lmsg)
__CPROVER_requires(__CPROVER_is_fresh(self, sizeof(*self)) && __CPROVER_is_fresh(lmsg, sizeof(*lmsg)))
__CPROVER_requires(CSTR_VALID(lmsg->m_context.file) && CSTR_VALID(lmsg->m_context.function) && CSTR_VALID(lmsg->m_context.category) && g_buf_ids >= 0 && g_buf_ids < 1000000)
__CPROVER_assigns(*self, g_buf_ids)
__CPROVER_ensures(self->m_type == lmsg->m_type && self->m_context.line == lmsg->m_context.line)
__CPROVER_ensures(QSTRING_SAME(self->m_message, lmsg->m_message) && self->m_message.id == lmsg->m_message.id)
__CPROVER_ensures(self->m_time.msecs == lmsg->m_time.msecs && self->m_time.jd == lmsg->m_time.jd && self->m_time.valid == lmsg->m_time.valid)   /* timestamp copied, not re-sampled */
__CPROVER_ensures(self->m_steadyTime.ticks == lmsg->m_steadyTime.ticks && self->m_qthreadptr == lmsg->m_qthreadptr)                       /* originating thread, not the copying one */
__CPROVER_ensures(QSTRING_SAME(self->m_formattedMessage, lmsg->m_formattedMessage) && self->m_formattedMessage.id == lmsg->m_formattedMessage.id && self->m_attributes.id == lmsg->m_attributes.id)
__CPROVER_ensures(SAME_CSTR_TEXT(lmsg->m_context.file, self->m_context.file) && SAME_CSTR_TEXT(lmsg->m_context.function, self->m_context.function) && SAME_CSTR_TEXT(lmsg->m_context.category, self->m_context.category))
/* ownership: the copy's context points into the copy's OWN byte arrays -- buffers allocated during this construction -- never into
 * the source message or the caller's buffers (which may be freed right after the logging call) */
#define OWNED_NEW(c, arr, lo) ((c).owner == (arr).owner && (arr).owner > (lo))
__CPROVER_ensures(OWNED_NEW(self->m_context.file, self->m_file, __CPROVER_old(g_buf_ids)) && OWNED_NEW(self->m_context.function, self->m_function, __CPROVER_old(g_buf_ids)) \
                  && OWNED_NEW(self->m_context.category, self->m_category, __CPROVER_old(g_buf_ids)))
__CPROVER_ensures(self->m_file.owner != self->m_function.owner && self->m_file.owner != self->m_category.owner && self->m_function.owner != self->m_category.owner);

/* ---- LogEvent(lmsg): an event of the registered type holding a copy made by that constructor ---- */
#define LE_COPY_OF(e, m) ((e)->lmsg.m_type == (m)->m_type && (e)->lmsg.m_message.id == (m)->m_message.id && (e)->lmsg.m_time.msecs == (m)->m_time.msecs \
    && (e)->lmsg.m_qthreadptr == (m)->m_qthreadptr && (e)->lmsg.m_attributes.id == (m)->m_attributes.id && (e)->lmsg.m_context.line == (m)->m_context.line \
    && (e)->lmsg.m_context.file.owner == (e)->lmsg.m_file.owner && (e)->lmsg.m_context.function.owner == (e)->lmsg.m_function.owner)
void OwnThreadHandler_SimplePipeline_LogEvent_ctor__LogMessage(OwnThreadHandler_SimplePipeline_LogEvent *self, LogMessage *lmsg)
__CPROVER_requires(__CPROVER_is_fresh(self, sizeof(*self)) && __CPROVER_is_fresh(lmsg, sizeof(*lmsg)))
__CPROVER_requires(CSTR_VALID(lmsg->m_context.file) && CSTR_VALID(lmsg->m_context.function) && CSTR_VALID(lmsg->m_context.category) && g_buf_ids >= 0 && g_buf_ids < 1000000)
__CPROVER_assigns(*self, g_buf_ids)
__CPROVER_ensures(self->_base.t == g_logevent_type && LE_COPY_OF(self, lmsg));

/* QCoreApplication::postEvent(receiver, event, priority = Qt::NormalEventPriority): ghost record */
#define POST_BODY(prio) { g_posts++; g_post_receiver = receiver; g_post_event = event; g_post_priority = (prio); }
static inline void QCoreApplication_postEvent__QObjectP_QEventP(QObject *receiver, QEvent *event) POST_BODY(E_Qt_EventPriority_NormalEventPriority)
static inline void QCoreApplication_postEvent__QObjectP_QEventP_int(QObject *receiver, QEvent *event, int priority) POST_BODY(priority)
static inline void QCoreApplication_postEvent__QObjectP_QEventP_Qt_EventPriority(QObject *receiver, QEvent *event, int priority) POST_BODY(priority)

/* ---- OwnThreadHandler<SimplePipeline>::process ---- */
#define OTH_OK(h) (__CPROVER_is_fresh(h, sizeof(*(h))) && OWN_DEPTH(h) == 0 && PENDING(h) >= 0 && PENDING(h) < 2147483647 && g_buf_ids >= 0 && g_buf_ids < 1000000)
BOOL OwnThreadHandler_SimplePipeline_process(OTH *self, LogMessage *lmsg)
__CPROVER_requires(OTH_OK(self) && __CPROVER_is_fresh(lmsg, sizeof(*lmsg)))
__CPROVER_requires(CSTR_VALID(lmsg->m_context.file) && CSTR_VALID(lmsg->m_context.function) && CSTR_VALID(lmsg->m_context.category))
__CPROVER_requires(self->m_worker == NULL || __CPROVER_is_fresh(self->m_worker, sizeof(*self->m_worker)))
__CPROVER_assigns(OWN_DEPTH(self), PENDING(self), g_runs, g_run_msg, g_run_on, g_run_own_depth, g_run_pending, g_run_type, g_run_text, g_run_line, g_run_file, lmsg->m_formattedMessage, lmsg->m_attributes, \
                  g_posts, g_post_receiver, g_post_event, g_post_priority, g_seen_valid, g_buf_ids)
__CPROVER_frees()
__CPROVER_ensures(__CPROVER_return_value == 1 && OWN_DEPTH(self) == 0)                   /* balanced locking */
/* no worker (never started, or stopped): the message is processed HERE, exactly once, as it is, with the handler's own mutex held */
ENS_C02(self->m_worker == NULL ==> (g_runs == __CPROVER_old(g_runs) + 1 && g_run_msg == lmsg && g_run_on == &self->_base._base._base && g_run_own_depth == 1 && g_posts == __CPROVER_old(g_posts)))
ENS_C02(self->m_worker == NULL ==> (g_run_type == lmsg->m_type && QSTRING_SAME(g_run_text, lmsg->m_message) && g_run_text.id == lmsg->m_message.id && g_run_line == lmsg->m_context.line && SAME_CSTR_TEXT(lmsg->m_context.file, g_run_file)))
ENS_C04(self->m_worker == NULL ==> (g_runs == __CPROVER_old(g_runs) + 1 && g_run_msg == lmsg && g_posts == __CPROVER_old(g_posts) && PENDING(self) == __CPROVER_old(PENDING(self))))
/* ... and that synchronous fall-back runs WITH THE HANDLER MUTEX HELD: resetOwnThread() holds the same mutex from the moment it sees pending == 0
 * until the worker is cleared, so under A-mutex a fall-back delivery cannot overlap a stop, and the test "is there a worker?" cannot be
 * separated from the delivery it decides (lock discipline the C04 reduction relies on; no interleaving is explored) */
ENS_C04(self->m_worker == NULL ==> g_run_own_depth == 1)
/* worker present: the logging call runs no handler; it counts the message as pending and posts ONE LogEvent holding a copy, default priority */
ENS_C03(self->m_worker != NULL ==> (g_runs == __CPROVER_old(g_runs) && g_posts == __CPROVER_old(g_posts) + 1 && g_post_receiver == &self->m_worker->_base \
        && g_post_priority == E_Qt_EventPriority_NormalEventPriority && PENDING(self) == __CPROVER_old(PENDING(self)) + 1))
ENS_C03(self->m_worker != NULL ==> (g_post_event->t == g_logevent_type && LE_COPY_OF((OwnThreadHandler_SimplePipeline_LogEvent *)g_post_event, lmsg)));

/* ---- Worker::customEvent ---- */
/* dynamic_cast<LogEvent*>(event): the object is a LogEvent exactly when it carries the registered LogEvent type (only LogEvents are created with it) */
static inline OwnThreadHandler_SimplePipeline_LogEvent *dynamic_cast_OwnThreadHandler_SimplePipeline_LogEventP__QEventP(QEvent *e)
{ if (e->t == g_logevent_type) return (OwnThreadHandler_SimplePipeline_LogEvent *)e; return (OwnThreadHandler_SimplePipeline_LogEvent *)NULL; }
OwnThreadHandler_SimplePipeline_LogEvent *g_ev;       /* the event object (any event is at least a QEvent; a LogEvent if its type says so) */
void OwnThreadHandler_SimplePipeline_Worker_customEvent(OwnThreadHandler_SimplePipeline_Worker *self, QEvent *event)
__CPROVER_requires(__CPROVER_is_fresh(self, sizeof(*self)) && __CPROVER_is_fresh(self->m_handler, sizeof(*self->m_handler)))
__CPROVER_requires(__CPROVER_is_fresh(g_ev, sizeof(*g_ev)) && event == &g_ev->_base && PENDING(self->m_handler) >= 1)
__CPROVER_assigns(PENDING(self->m_handler), g_runs, g_run_msg, g_run_on, g_run_own_depth, g_run_pending, g_run_type, g_run_text, g_run_line, g_run_file, \
                  g_ev->lmsg.m_formattedMessage, g_ev->lmsg.m_attributes)
/* a LogEvent: its message goes through the wrapped handler exactly once, and only THEN stops counting as pending */
__CPROVER_ensures(event->t == g_logevent_type ==> (g_runs == __CPROVER_old(g_runs) + 1 && g_run_msg == &g_ev->lmsg \
        && g_run_on == &self->m_handler->_base._base._base && PENDING(self->m_handler) == __CPROVER_old(PENDING(self->m_handler)) - 1))
__CPROVER_ensures(event->t == g_logevent_type ==> g_run_pending == __CPROVER_old(PENDING(self->m_handler)))      /* still pending while it is being delivered */
/* anything else is ignored */
__CPROVER_ensures(event->t != g_logevent_type ==> (g_runs == __CPROVER_old(g_runs) && PENDING(self->m_handler) == __CPROVER_old(PENDING(self->m_handler))));

/* ---- resetOwnThread ---- */
static inline void QThread_quit(QThread *t)
{ g_quits++; g_quit_ok = g_quit_ok && g_seen_valid && g_seen_pending <= 0;     /* the count was read as 0 under the mutex and the mutex was not released since */
  __CPROVER_assert(g_seen_valid && g_seen_pending <= 0, "C04 the worker thread is told to quit only after the pending count was read as 0 under the handler mutex, with no unlock in between"); }
static inline BOOL QThread_wait__unsignedlong(QThread *t, unsigned long ms) { if (nondet_int()) { t->running = 0; return 1; } return 0; }
static inline BOOL QThread_wait(QThread *t) { t->running = 0; return 1; }
static inline void QThread_terminate(QThread *t) { g_terminates++; }
void OwnThreadHandler_SimplePipeline_resetOwnThread(OTH *self)
__CPROVER_requires(OTH_OK(self) && (self->m_thread.p == NULL || self->m_thread.p == &g_thread_obj) && IS_BOOL(g_quit_ok))
__CPROVER_requires((self->m_thread.p == NULL) == (self->m_worker == NULL))            /* representation invariant: a worker exists exactly while the thread does */
__CPROVER_assigns(OWN_DEPTH(self), PENDING(self), self->m_thread, self->m_worker, g_seen_valid, g_seen_pending, g_quits, g_quit_ok, g_terminates, g_thread_obj.running)
__CPROVER_ensures(OWN_DEPTH(self) == 0)
/* afterwards there is no worker and no thread: process() is synchronous from now on */
__CPROVER_ensures(self->m_worker == NULL && self->m_thread.p == NULL)
/* a running thread was stopped exactly once, and only with an empty backlog */
__CPROVER_ensures(__CPROVER_old(self->m_thread.p) != NULL ==> (g_quits == __CPROVER_old(g_quits) + 1 && PENDING(self) <= 0))
__CPROVER_ensures(__CPROVER_old(self->m_thread.p) == NULL ==> g_quits == __CPROVER_old(g_quits));
/* the wait loop: another thread (the worker) changes the counter while the mutex is released -- havoc of PENDING at msleep */
#if defined(LOOPKIND_OwnThreadHandler_SimplePipeline_resetOwnThread_0_while)
#define LOOP_OwnThreadHandler_SimplePipeline_resetOwnThread_0 \
  __CPROVER_assigns(OWN_DEPTH(self), PENDING(self), locker.locked, g_seen_valid, g_seen_pending) \
  __CPROVER_loop_invariant(locker.locked == 1 && locker.m == &self->m_mutex._base && OWN_DEPTH(self) == 1)
#endif
