// C03 -- asynchronous hand-off preserves message content and order (DESIGN 3, C03)
//@ tus logger.cpp verif:ownthread_inst.cpp
//@ lower OwnThreadHandler<SimplePipeline>::process OwnThreadHandler<SimplePipeline>::Worker::customEvent
//@ lower OwnThreadHandler<SimplePipeline>::LogEvent::LogEvent#LogMessage OwnThreadHandler<SimplePipeline>::LogEvent::type LogMessage::LogMessage#LogMessage
//@ enforce LogMessage_ctor__LogMessage
//@ enforce OwnThreadHandler_SimplePipeline_LogEvent_ctor__LogMessage
//@ enforce OwnThreadHandler_SimplePipeline_process
//@ enforce OwnThreadHandler_SimplePipeline_Worker_customEvent
#define PROP_C03 1
#include "contracts/thread_part1.h"
//@ ---
/* the copy's three byte arrays are distinguishable objects: tag them at construction (ghost ownership) */
#define VERIF_C03_OWNERSHIP 1
#include "contracts/thread_common.h"
