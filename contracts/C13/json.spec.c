// C13 -- JSON output: complete and faithful as far as the library's own code decides it (PARTIAL: validity/escaping is QJsonDocument's) (DESIGN 3, C13)
//@ tus formatters/jsonformatter.cpp
//@ lower JsonFormatter::format LogMessage::allAttributes qtMsgTypeToString JsonFormatter::JsonFormatter
//@ lower LogMessage::type LogMessage::line LogMessage::file LogMessage::function LogMessage::category LogMessage::message LogMessage::time LogMessage::threadId
//@ enforce JsonFormatter_format
//@ enforce LogMessage_allAttributes
//@ enforce qtMsgTypeToString
//@ enforce JsonFormatter_ctor__BOOL
#define VERIF_OWN_QVARIANT 1
#define VERIF_OWN_QSTRINGLIST 1
#include "models/ident.h"
int nondet_int(void);
#define QSTRING_KEY(s) ((s).len == 0 ? 0 : (s).id)

/* QVariant: what it holds */
enum { VK_INVALID = 0, VK_STRING, VK_INT, VK_CSTR, VK_DATETIME, VK_ULL, VK_OTHER };
typedef struct { int kind; int id; long long v; int isnull; } QVariant;
/* QVariantHash: the eight built-in entries of allAttributes() are kept explicitly (brace initialiser), the custom attributes of the
 * message as one identity laid over them (QHash::insert(other): entries of `other` replace equal keys) */
typedef struct { int id; int nb; int bk0, bk1, bk2, bk3, bk4, bk5, bk6, bk7; QVariant bv0, bv1, bv2, bv3, bv4, bv5, bv6, bv7; int custom; int custom_after; int n; } QVariantHash;
typedef struct { QString first; QVariant second; } std_pair_QString_QVariant;
static inline QVariantHash QVariantHash_ctor(void) { QVariantHash h; h.id = nondet_int(); h.nb = 0; h.custom = 0; h.custom_after = -1; h.n = 0; return h; }
#define MKPAIR(NAME, T, KIND, IDEXPR, VEXPR, NULLEXPR) static inline std_pair_QString_QVariant NAME(QString k, T x) \
  { std_pair_QString_QVariant p; p.first = k; p.second.kind = KIND; p.second.id = IDEXPR; p.second.v = VEXPR; p.second.isnull = NULLEXPR; return p; }
MKPAIR(std_pair_QString_QVariant_ctor__QString_QString, QString, VK_STRING, x.id, x.len, x.isnull)
MKPAIR(std_pair_QString_QVariant_ctor__QString_int, int, VK_INT, 0, x, 0)
MKPAIR(std_pair_QString_QVariant_ctor__QString_cstr, cstr, VK_CSTR, x.id, x.len, x.isnull)
MKPAIR(std_pair_QString_QVariant_ctor__QString_QDateTime, QDateTime, VK_DATETIME, 0, x.msecs, 0)
MKPAIR(std_pair_QString_QVariant_ctor__QString_unsignedlonglong, unsigned long long, VK_ULL, 0, (long long)(x & 0x7fffffffffffffffULL), (int)(x >> 63))
static inline void QVariantHash_initlist_add__std_pair_QString_QVariant(QVariantHash *h, std_pair_QString_QVariant e)
{ __CPROVER_assert(h->nb >= 0 && h->nb < 8, "initialiser list within the model's capacity (8 entries)");
#define PUT(i) if (h->nb == i) { h->bk##i = e.first.id; h->bv##i = e.second; }
  PUT(0) PUT(1) PUT(2) PUT(3) PUT(4) PUT(5) PUT(6) PUT(7) h->nb = h->nb + 1; h->n = h->nb; }
static inline void QVariantHash_insert__QVariantHash(QVariantHash *h, QVariantHash other)
{ h->custom = other.id; h->custom_after = h->nb; int n = nondet_int(); __CPROVER_assume(n >= h->n && n <= 1000000000); h->n = n; }    /* the overlay adds the keys it does not share */
static inline void QVariantHash_unite__QVariantHash(QVariantHash *h, QVariantHash other) { h->custom = other.id; h->custom_after = -2; }   /* unite() KEEPS both values of a key: not an overlay */

/* QHash<QtMsgType,QString> of qtMsgTypeToString */
typedef struct { int n; QtMsgType k[8]; QString v[8]; } QHash_QtMsgType_QString;
typedef struct { QtMsgType first; QString second; } std_pair_QtMsgType_QString;
static inline QHash_QtMsgType_QString QHash_QtMsgType_QString_ctor(void) { QHash_QtMsgType_QString h; h.n = 0; return h; }
static inline std_pair_QtMsgType_QString std_pair_QtMsgType_QString_ctor__QtMsgType_QString(QtMsgType k, QString v) { std_pair_QtMsgType_QString p; p.first = k; p.second = v; return p; }
static inline void QHash_QtMsgType_QString_initlist_add__std_pair_QtMsgType_QString(QHash_QtMsgType_QString *h, std_pair_QtMsgType_QString e)
{ __CPROVER_assert(h->n >= 0 && h->n < 8, "initialiser list within the model's capacity"); h->k[h->n] = e.first; h->v[h->n] = e.second; h->n = h->n + 1; }
#define HV(i) if (h.n > (i) && h.k[i] == key) r = h.v[i];
static inline QString QHash_QtMsgType_QString_value__QtMsgType_QString(QHash_QtMsgType_QString h, QtMsgType key, QString dflt)
{ QString r = dflt; HV(0) HV(1) HV(2) HV(3) HV(4) HV(5) HV(6) HV(7) return r; }

/* iteration over a QVariantHash: entry i has key KEY(h,i) and value VAL(h,i) (each entry once, order unspecified) */
int __CPROVER_uninterpreted_entry_key(int hash, int i); int __CPROVER_uninterpreted_entry_val(int hash, int i);
typedef struct { QVariantHash *h; int i; } QHash_QString_QVariant_const_iterator;
typedef QHash_QString_QVariant_const_iterator HIT;
QVariantHash *g_iter_hash; int g_attrs_n;
static inline HIT QVariantHash_cbegin_const(QVariantHash *h) { HIT it; it.h = h; it.i = 0; g_iter_hash = h; g_attrs_n = h->n; return it; }
static inline HIT QVariantHash_cend_const(QVariantHash *h) { HIT it; it.h = h; it.i = h->n; return it; }
static inline HIT QVariantHash_constBegin_const(QVariantHash *h) { return QVariantHash_cbegin_const(h); }
static inline HIT QVariantHash_constEnd_const(QVariantHash *h) { return QVariantHash_cend_const(h); }
static inline HIT QVariantHash_begin_const(QVariantHash *h) { return QVariantHash_cbegin_const(h); }
static inline HIT QVariantHash_end_const(QVariantHash *h) { return QVariantHash_cend_const(h); }
static inline BOOL QHash_QString_QVariant_const_iterator_op_ne__QHash_QString_QVariant_const_iterator(HIT a, HIT b) { return a.i != b.i; }
static inline HIT *QHash_QString_QVariant_const_iterator_op_inc(HIT *a) { a->i++; return a; }
int g_cur_idx;
static inline QString QHash_QString_QVariant_const_iterator_key(HIT it)
{ __CPROVER_assert(0 <= it.i && it.i < it.h->n, "hash iterator dereferenced inside [begin,end)"); g_cur_idx = it.i;
  QString s; s.isnull = 0; s.len = 1; s.tag = 0; s.id = __CPROVER_uninterpreted_entry_key(it.h->id, it.i); return s; }
static inline QVariant QHash_QString_QVariant_const_iterator_value(HIT it)
{ __CPROVER_assert(0 <= it.i && it.i < it.h->n, "hash iterator dereferenced inside [begin,end)"); g_cur_idx = it.i;
  QVariant v; v.kind = VK_OTHER; v.v = 0; v.isnull = 0; v.id = __CPROVER_uninterpreted_entry_val(it.h->id, it.i); return v; }

/* JSON building blocks (A-json: QJsonDocument::toJson emits ONE valid object, escapes what must be escaped, no line break in Compact mode;
 * QJsonValue::fromVariant is lossless on the property's value range) */
typedef struct { int from_variant; } QJsonValue;
typedef struct { int oid; } QJsonObject;
typedef struct { int oid; } QJsonDocument;
enum { E_QJsonDocument_JsonFormat_Indented = 0, E_QJsonDocument_JsonFormat_Compact = 1 };
typedef int QJsonDocument_JsonFormat;
int g_oids;
static inline QJsonObject QJsonObject_ctor(void) { QJsonObject o; if (g_oids < 1000000) g_oids++; o.oid = g_oids; return o; }
static inline QJsonValue QJsonValue_fromVariant__QVariant(QVariant v) { QJsonValue j; j.from_variant = v.id; return j; }
int g_j; unsigned long long g_ins_j, g_ins_total; int g_ins_key_ok, g_ins_val_ok, g_ins_obj;     /* witness entry index: how often / how it was inserted */
static inline void QJsonObject_insert__QString_QJsonValue(QJsonObject *o, QString key, QJsonValue v)
{ g_ins_total++; g_ins_obj = o->oid;
  if (g_cur_idx == g_j) { g_ins_j++; g_ins_key_ok = (key.id == __CPROVER_uninterpreted_entry_key(g_iter_hash->id, g_j)); g_ins_val_ok = (v.from_variant == __CPROVER_uninterpreted_entry_val(g_iter_hash->id, g_j)); } }
static inline QJsonDocument QJsonDocument_ctor__QJsonObject(QJsonObject o) { QJsonDocument d; d.oid = o.oid; return d; }
#define QBYTEARRAY_JSON(b) ((b).owner)
static inline QByteArray QJsonDocument_toJson__QJsonDocument_JsonFormat(QJsonDocument d, int fmt)
{ QByteArray b; b.isnull = 0; b.id = d.oid; b.len = nondet_int(); __CPROVER_assume(b.len >= 2); b.owner = 1000 + fmt; return b; }
static inline QString QString_fromUtf8__QByteArray(QByteArray b) { QString s; s.isnull = 0; s.id = b.id; s.len = b.len; s.tag = b.owner; return s; }
//@ ---
#define LM_OK(m) (QSTRING_VALID((m)->m_message) && QTMSGTYPE_VALID((m)->m_type) && CSTR_VALID((m)->m_context.file) && CSTR_VALID((m)->m_context.function) && CSTR_VALID((m)->m_context.category))
#define TYPE_WORD(t) ((t) == QtDebugMsg ? LIT_debug : (t) == QtInfoMsg ? LIT_info : (t) == QtWarningMsg ? LIT_warning : (t) == QtCriticalMsg ? LIT_critical : LIT_fatal)

/* qtMsgTypeToString: the five types map to their words */
QString qtMsgTypeToString(QtMsgType type, QString a_default)
__CPROVER_requires(QTMSGTYPE_VALID(type))
__CPROVER_assigns()
__CPROVER_ensures(__CPROVER_return_value.id == TYPE_WORD(type) && !__CPROVER_return_value.isnull);

/* allAttributes(): the eight built-in fields, each from ITS accessor, and the custom attributes laid over them afterwards */
#define SLOT(h, K, i) ((h).nb > (i) && (h).bk##i == (K))
#define HAS(h, K, COND) ((SLOT(h, K, 0) && COND((h).bv0)) || (SLOT(h, K, 1) && COND((h).bv1)) || (SLOT(h, K, 2) && COND((h).bv2)) || (SLOT(h, K, 3) && COND((h).bv3)) || \
                         (SLOT(h, K, 4) && COND((h).bv4)) || (SLOT(h, K, 5) && COND((h).bv5)) || (SLOT(h, K, 6) && COND((h).bv6)) || (SLOT(h, K, 7) && COND((h).bv7)))
#define IS_TYPE(x_) ((x_).kind == VK_STRING && (x_).id == TYPE_WORD(self->m_type))
#define IS_LINE(x_) ((x_).kind == VK_INT && (x_).v == self->m_context.line)
#define IS_FILE(x_) ((x_).kind == VK_CSTR && (x_).id == self->m_context.file.id && (x_).isnull == self->m_context.file.isnull && (x_).v == self->m_context.file.len)
#define IS_FUNC(x_) ((x_).kind == VK_CSTR && (x_).id == self->m_context.function.id && (x_).isnull == self->m_context.function.isnull && (x_).v == self->m_context.function.len)
#define IS_CAT(x_) ((x_).kind == VK_CSTR && (x_).id == self->m_context.category.id && (x_).isnull == self->m_context.category.isnull && (x_).v == self->m_context.category.len)
#define IS_MSG(x_) ((x_).kind == VK_STRING && (x_).id == self->m_message.id && (x_).isnull == self->m_message.isnull && (x_).v == self->m_message.len)
#define IS_TIME(x_) ((x_).kind == VK_DATETIME && (x_).v == self->m_time.msecs)
#define IS_TID(x_) ((x_).kind == VK_ULL && (x_).v == (long long)(self->m_qthreadptr & 0x7fffffffffffffffULL) && (x_).isnull == (int)(self->m_qthreadptr >> 63))
QVariantHash LogMessage_allAttributes(LogMessage *self)
__CPROVER_requires(__CPROVER_is_fresh(self, sizeof(*self)) && LM_OK(self))
__CPROVER_assigns()
__CPROVER_ensures(__CPROVER_return_value.nb == 8 && __CPROVER_return_value.n >= 8 && __CPROVER_return_value.n <= 1000000000)
__CPROVER_ensures(HAS(__CPROVER_return_value, LIT_type, IS_TYPE) && HAS(__CPROVER_return_value, LIT_line, IS_LINE) && HAS(__CPROVER_return_value, LIT_file, IS_FILE) && HAS(__CPROVER_return_value, LIT_function, IS_FUNC))
__CPROVER_ensures(HAS(__CPROVER_return_value, LIT_category, IS_CAT) && HAS(__CPROVER_return_value, LIT_message, IS_MSG) && HAS(__CPROVER_return_value, LIT_time, IS_TIME) && HAS(__CPROVER_return_value, LIT_threadId, IS_TID))
/* every custom attribute is in the result (overlaid after all built-ins were put in) */
__CPROVER_ensures(__CPROVER_return_value.custom == self->m_attributes.id && __CPROVER_return_value.custom_after == 8);

/* format(): every entry of allAttributes() is put into ONE JSON object exactly once, under its own key, with the JSON conversion of its own
 * value; the document of exactly that object is serialised in Compact mode iff the formatter is compact; the result is that text */
QString JsonFormatter_format(JsonFormatter *self, LogMessage *lmsg)
__CPROVER_requires(__CPROVER_is_fresh(self, sizeof(*self)) && __CPROVER_is_fresh(lmsg, sizeof(*lmsg)) && LM_OK(lmsg) && IS_BOOL(self->m_compact) && g_j >= 0 && g_ins_j == 0 && g_oids >= 0)
__CPROVER_assigns(g_cur_idx, g_ins_j, g_ins_total, g_ins_key_ok, g_ins_val_ok, g_ins_obj, g_oids, g_iter_hash, g_attrs_n)
__CPROVER_ensures(g_j < g_attrs_n ==> (g_ins_j == 1 && g_ins_key_ok && g_ins_val_ok))
__CPROVER_ensures(g_ins_total == __CPROVER_old(g_ins_total) + (unsigned long long)g_attrs_n)                      /* nothing else is inserted */
__CPROVER_ensures(__CPROVER_return_value.tag == 1000 + (self->m_compact ? E_QJsonDocument_JsonFormat_Compact : E_QJsonDocument_JsonFormat_Indented))
__CPROVER_ensures(g_attrs_n == 0 || __CPROVER_return_value.id == g_ins_obj);                                        /* ... of the object the entries went into */
#if defined(LOOPKIND_JsonFormatter_format_0_for) && defined(HASVAR_JsonFormatter_format_attrs) && defined(HASVAR_JsonFormatter_format_obj)
#define LOOP_JsonFormatter_format_0 \
  __CPROVER_assigns(it.i, g_cur_idx, g_ins_j, g_ins_total, g_ins_key_ok, g_ins_val_ok, g_ins_obj) \
  __CPROVER_loop_invariant(it.h == &attrs && 0 <= it.i && it.i <= attrs.n && g_iter_hash == &attrs && g_attrs_n == attrs.n) \
  __CPROVER_loop_invariant(it.i <= g_j ==> g_ins_j == 0) \
  __CPROVER_loop_invariant(it.i > g_j ==> (g_ins_j == 1 && g_ins_key_ok && g_ins_val_ok)) \
  __CPROVER_loop_invariant(g_ins_total == __CPROVER_loop_entry(g_ins_total) + (unsigned long long)it.i && (it.i == 0 || g_ins_obj == obj.oid)) \
  __CPROVER_decreases(attrs.n - it.i)
#endif

void JsonFormatter_ctor__BOOL(JsonFormatter *self, BOOL compact)
__CPROVER_requires(__CPROVER_is_fresh(self, sizeof(*self)) && IS_BOOL(compact))
__CPROVER_assigns(*self)
__CPROVER_ensures(self->m_compact == compact);
static inline void Formatter_ctor__void(Formatter *self) { }
