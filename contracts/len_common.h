/* part 2 (after the repo structs): std::optional<FormatSpec>, object validity, and the contracts shared between the C14/C12 units.
 * Property-specific clauses are switched on by OBL_C12 (the C14 units prove safety and termination only). */
#ifndef VERIF_LEN_COMMON_H
#define VERIF_LEN_COMMON_H
steady_time_point g_processStartTime;
struct std_optional_FormattedToken_FormatSpec { BOOL has; FormattedToken_FormatSpec v; };
static inline std_optional_FormattedToken_FormatSpec std_optional_FormattedToken_FormatSpec_ctor(void)
{ std_optional_FormattedToken_FormatSpec o; o.has = 0; o.v.fill.u = 32; o.v.align = 0; o.v.width = 0; o.v.truncateMode = 0; return o; }
static inline std_optional_FormattedToken_FormatSpec std_optional_FormattedToken_FormatSpec_ctor__std_nullopt_t(int n) { return std_optional_FormattedToken_FormatSpec_ctor(); }
static inline std_optional_FormattedToken_FormatSpec std_optional_FormattedToken_FormatSpec_ctor__FormattedToken_FormatSpec(FormattedToken_FormatSpec *s)
{ std_optional_FormattedToken_FormatSpec o; o.has = 1; o.v = *s; return o; }
static inline BOOL std_optional_FormattedToken_FormatSpec_op_tobool(std_optional_FormattedToken_FormatSpec o) { return o.has != 0; }
static inline BOOL std_optional_FormattedToken_FormatSpec_has_value(std_optional_FormattedToken_FormatSpec o) { return o.has != 0; }
static inline FormattedToken_FormatSpec *std_optional_FormattedToken_FormatSpec_op_deref(std_optional_FormattedToken_FormatSpec *o)
{ __CPROVER_assert(o->has, "C14 optional: operator* needs an engaged std::optional"); return &o->v; }
static inline FormattedToken_FormatSpec *std_optional_FormattedToken_FormatSpec_value(std_optional_FormattedToken_FormatSpec *o)
{ __CPROVER_assert(o->has, "C14 optional: value() needs an engaged std::optional"); return &o->v; }

/* enum class Alignment { None, Left, Right, Center }; enum class TruncateMode { None, Truncate, TruncateOnly } */
#define AL_NONE 0
#define AL_LEFT 1
#define AL_RIGHT 2
#define AL_CENTER 3
#define TM_NONE 0
#define TM_TRUNCATE 1
#define TM_TRUNCATE_ONLY 2
#define SPEC_ENUMS_VALID(sp) ((sp).align >= 0 && (sp).align <= 3 && (sp).truncateMode >= 0 && (sp).truncateMode <= 2)
/* A-alloc for padding: a spec that PADS to a width produces that many characters; a padding width above the QString size limit is
 * memory exhaustion (outside the model).  A truncate-only width is a maximum, produces nothing, and is NOT restricted. */
#define SPEC_VALID(sp) (SPEC_ENUMS_VALID(sp) && ((sp).align == AL_NONE || (sp).truncateMode == TM_TRUNCATE_ONLY || (sp).width <= LEN_MAX))
#define CSTR_OK(c) (CSTR_VALID(c) && (c).len <= LEN_MAX)
#define LMSG_OK(l) (QSTRING_IS_VALUE((l)->m_message) && QSTRING_VALID((l)->m_formattedMessage) && CSTR_OK((l)->m_context.file) && CSTR_OK((l)->m_context.function) \
    && CSTR_OK((l)->m_context.category) && QTMSGTYPE_VALID((l)->m_type))
#define MAXI(a, b) ((a) > (b) ? (a) : (b))

/* FunctionToken::cleanup(signature): proved in contracts/C14/cleanup.spec.c */
QByteArray FunctionToken_cleanup(QByteArray func)
__CPROVER_requires(QBYTEARRAY_VALID(func))
__CPROVER_assigns()
__CPROVER_ensures(QBYTEARRAY_VALID(__CPROVER_return_value) && __CPROVER_return_value.len <= func.len);   /* the clean-up only removes text */

/* parseFormatSpec(spec): proved in contracts/C14/tokens.spec.c */
#ifndef ENS_C12_PARSE
#define ENS_C12_PARSE 1
#endif
std_optional_FormatSpec FormattedToken_parseFormatSpec(QString specString)
__CPROVER_requires(QSTRING_VALID(specString))
__CPROVER_assigns()
__CPROVER_ensures(IS_BOOL(__CPROVER_return_value.has) && (!__CPROVER_return_value.has || (__CPROVER_return_value.v.width > 0 && SPEC_ENUMS_VALID(__CPROVER_return_value.v))))
__CPROVER_ensures(ENS_C12_PARSE);

/* applyPadding(value): proved in contracts/C14/tokens.spec.c */
#ifndef ENS_C12_PAD
#define ENS_C12_PAD 1
#endif
QString FormattedToken_applyPadding(FormattedToken *self, QString value)
__CPROVER_requires(__CPROVER_is_fresh(self, sizeof(*self)) && SPEC_VALID(self->m_spec) && QSTRING_VALID(value))
__CPROVER_assigns()
__CPROVER_ensures(QSTRING_VALID(__CPROVER_return_value) && __CPROVER_return_value.len <= MAXI(value.len, self->m_spec.width))
__CPROVER_ensures(ENS_C12_PAD);
#endif
