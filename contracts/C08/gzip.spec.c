// C08 (2/2) -- compressFile writes exactly the gzip framing of the rotated log, and removes the original only afterwards (DESIGN 3, C08)
//@ tus sinks/rotatingfilesink.cpp
//@ lower RotatingFileSink::RotatingFileSinkPrivate::compressFile
//@ enforce RotatingFileSink_RotatingFileSinkPrivate_compressFile
#define QSTRING_EXTRA_FIELDS int role;
#include "models/ident.h"
int nondet_int(void); long long nondet_ll(void);
typedef struct { int _p; } QScopedPointer_RotatingFileSink_RotatingFileSinkPrivate; typedef struct { long long jd; } QDate_;
typedef struct { void *p; } QSharedPointer_QIODevice;
enum { ROLE_OTHER = 0, ROLE_IN, ROLE_OUT };
#define QString_literal(id_, len_) mk_lit(id_, len_)
static inline QString mk_lit(int id, int len) { QString s; s.isnull = 0; s.id = id; s.len = len; s.tag = 0; s.role = ROLE_OTHER; return s; }
static inline QString op_plus__QString_QString(QString a, QString b) { QString r = a; r.id = nondet_int(); r.role = (a.role == ROLE_IN && b.id == LITX__gz && b.len == 3) ? ROLE_OUT : ROLE_OTHER; return r; }    /* <rotated> + ".gz" */

/* ---- files: the rotated log (IN) and its compressed copy (OUT) ---- */
enum { E_QIODevice_OpenModeFlag_NotOpen = 0, E_QIODevice_OpenModeFlag_ReadOnly = 1, E_QIODevice_OpenModeFlag_WriteOnly = 2, E_QIODevice_OpenModeFlag_ReadWrite = 3, E_QIODevice_OpenModeFlag_Append = 4, E_QIODevice_OpenModeFlag_Truncate = 8, E_QIODevice_OpenModeFlag_Text = 16 };
typedef struct { int v; } QFlags_QIODevice_OpenModeFlag;
static inline QFlags_QIODevice_OpenModeFlag QFlags_QIODevice_OpenModeFlag_ctor__QIODevice_OpenModeFlag(int f) { QFlags_QIODevice_OpenModeFlag r; r.v = f; return r; }
static inline QFlags_QIODevice_OpenModeFlag op_or__QIODevice_OpenModeFlag_QIODevice_OpenModeFlag(int a, int b) { QFlags_QIODevice_OpenModeFlag r; r.v = a | b; return r; }
typedef struct { int _o; } QObject; typedef struct { QObject _base; int role; int open; int mode; } QIODevice; typedef struct { QIODevice _base; } QFileDevice; typedef struct { QFileDevice _base; } QFile;
#define DEV(f) ((f)->_base._base)
static inline QFile QFile_ctor__QString(QString name) { QFile f; DEV(&f).role = name.role; DEV(&f).open = 0; DEV(&f).mode = 0; return f; }
int g_in_data; long long g_in_size; unsigned int g_in_crc;          /* content identity, byte size and CRC-32 of the rotated log */
int g_out_created, g_out_closed, g_in_text_mode; unsigned long long g_removes; int g_removed_in, g_removed_before_close;
static inline BOOL QFile_open__QFlags_QIODevice_OpenModeFlag(QFile *f, QFlags_QIODevice_OpenModeFlag m)
{ if (nondet_int()) return 0;                                         /* opening may fail */
  DEV(f).open = 1; DEV(f).mode = m.v;
  if (DEV(f).role == ROLE_IN) g_in_text_mode = (m.v & E_QIODevice_OpenModeFlag_Text) != 0;
  if (DEV(f).role == ROLE_OUT && (m.v & E_QIODevice_OpenModeFlag_WriteOnly)) g_out_created = 1;
  return 1; }
static inline void QFileDevice_close(QFileDevice *f) { if (f->_base.role == ROLE_OUT && f->_base.open) g_out_closed = 1; f->_base.open = 0; }
static inline long long QFile_size(QFile *f) { if (DEV(f).role == ROLE_IN) return g_in_size; long long n = nondet_ll(); __CPROVER_assume(n >= 0); return n; }
static inline BOOL QFileDevice_seek__longlong(QFileDevice *f, long long pos) { return 1; }
static inline BOOL QFile_remove__QString(QString path)
{ g_removes++; if (path.role == ROLE_IN) { g_removed_in = 1; if (!g_out_closed) g_removed_before_close = 1; } return nondet_int() != 0; }
static inline BOOL QFile_remove(QFile *f) { g_removes++; if (DEV(f).role == ROLE_IN) { g_removed_in = 1; if (!g_out_closed) g_removed_before_close = 1; } return nondet_int() != 0; }
/* readAll() of the binary-opened input: the whole file (A-fs); in text mode CR bytes would be dropped: another content */
static inline QByteArray QIODevice_readAll(QIODevice *d)
{ QByteArray b; b.isnull = 0; b.owner = 0; b.len = nondet_int(); __CPROVER_assume(b.len >= 0); b.id = (d->role == ROLE_IN && d->open && !(d->mode & E_QIODevice_OpenModeFlag_Text)) ? g_in_data : nondet_int(); return b; }
/* read(maxlen): at most maxlen bytes from the current position.  The block is the whole file only if the file is that short: its content
 * identity is the file's or ANOTHER one (a proper part of the file), so compressing block by block is not compressing the file */
static inline QByteArray QIODevice_read__longlong(QIODevice *d, long long maxlen)
{ QByteArray b; b.isnull = 0; b.owner = 0; b.len = nondet_int(); __CPROVER_assume(b.len >= 0 && (maxlen < 0 || b.len <= maxlen));
  b.id = (nondet_int() && d->role == ROLE_IN && d->open && !(d->mode & E_QIODevice_OpenModeFlag_Text)) ? g_in_data : nondet_int(); return b; }
static inline BOOL QFileDevice_atEnd(QFileDevice *f) { return nondet_int() != 0; }
/* qCompress(data, level): 4-byte big-endian length, then the zlib stream = 2-byte header, raw deflate of data, 4-byte Adler-32 (A-zlib) */
int __CPROVER_uninterpreted_zlib_of(int data); int g_zlen;
static inline QByteArray qCompress__QByteArray_int(QByteArray data, int level)
{ QByteArray z; z.isnull = 0; z.owner = 0; z.id = __CPROVER_uninterpreted_zlib_of(data.id); __CPROVER_assume(z.id != 0 && z.id != LITX_____); z.len = nondet_int(); __CPROVER_assume(z.len >= 0 && z.len <= 2147483647 - 64); g_zlen = z.len; return z; }
int g_zlen;
static inline int QByteArray_size(QByteArray b) { return b.len; }
static inline cstr QByteArray_constData(QByteArray b) { cstr c; c.isnull = 0; c.id = b.id; c.len = b.len; c.owner = 0; c.ptr = 0; return c; }      /* owner: offset into the array */
static inline cstr cstr_add(cstr c, long long k) { cstr r = c; __CPROVER_assert(k >= 0 && k <= c.len, "pointer arithmetic stays inside the byte array"); r.owner = c.owner + (int)k; r.len = c.len - (int)k; return r; }
static inline unsigned int qToLittleEndian__unsignedint(unsigned int v) { return v; }            /* little-endian host */

/* ---- the output stream, observed at ONE arbitrary byte offset g_o ---- */
enum { B_NONE = 0, B_CONST, B_Z, B_OTHER };
long long g_out_pos, g_o; int g_ob_kind; long long g_ob_val; int g_ob_src;
static inline void out_const(QIODevice *d, unsigned int byte) { if (d->role == ROLE_OUT && d->open && g_out_pos == g_o) { g_ob_kind = B_CONST; g_ob_val = byte; } if (d->role == ROLE_OUT && g_out_pos < 4000000000LL) g_out_pos++; }
static inline BOOL QIODevice_putChar__char(QIODevice *d, char c) { out_const(d, (unsigned int)(((int)c) & 0xff)); return 1; }
static inline long long QIODevice_write__cstr_longlong(QIODevice *d, cstr data, long long n)
{
    if (d->role != ROLE_OUT || !d->open || n < 0) return -1;
    if (g_o >= g_out_pos && g_o < g_out_pos + n) {
        long long k = g_o - g_out_pos;
        if (data.ptr != NULL && n <= 4) { g_ob_kind = B_CONST; g_ob_val = (*(const unsigned int *)data.ptr >> (8 * (unsigned)k)) & 0xffu; }       /* byte k of a 32-bit word in memory (little endian) */
        else if (data.ptr == NULL && data.id == LITX_____ && n <= 4 && data.owner == 0) { g_ob_kind = B_CONST; g_ob_val = 0; }                      /* the literal of four NUL bytes */
        else if (data.ptr == NULL && data.id != 0 && k < data.len) { g_ob_kind = B_Z; g_ob_src = data.id; g_ob_val = data.owner + k; }               /* byte (offset+k) of a byte array */
        else g_ob_kind = B_OTHER;
    }
    if (g_out_pos < 4000000000LL) g_out_pos += n;
    return n;
}
//@ ---
typedef RotatingFileSink_RotatingFileSinkPrivate Priv;
/* CRC of the input file: proved in crc.spec.c (same function, same contract shape): the CRC-32 of the whole file */
unsigned int calculateCRC32(QFile *file) __CPROVER_requires(file != NULL) __CPROVER_assigns() __CPROVER_ensures(DEV(file).role == ROLE_IN ==> __CPROVER_return_value == g_in_crc);

#define ZLEN (g_zlen)
int g_zlen_unused_;    /* length of qCompress's result (ghost copy: fixed by the model through an assumption below) */
/* expected gzip member (RFC 1952) at offset o:  1f 8b 08 00 | 00 00 00 00 | 00 03 | raw deflate = Z[6 .. |Z|-4) | CRC32 LE | ISIZE LE */
#define P_LEN(zl) ((zl) > 10 ? (long long)(zl) - 10 : 0)
void RotatingFileSink_RotatingFileSinkPrivate_compressFile(Priv *self, QString filePath)
__CPROVER_requires(__CPROVER_is_fresh(self, sizeof(*self)) && filePath.role == ROLE_IN && g_in_size >= 0 && g_out_pos == 0 && g_o >= 0 && g_ob_kind == B_NONE)
__CPROVER_requires(g_out_created == 0 && g_out_closed == 0 && g_removed_in == 0 && g_removed_before_close == 0 && g_in_text_mode == 0)
__CPROVER_assigns(g_out_pos, g_ob_kind, g_ob_val, g_ob_src, g_out_created, g_out_closed, g_in_text_mode, g_removes, g_removed_in, g_removed_before_close, g_zlen)
/* the uncompressed file disappears only once the compressed one is complete (written and closed); on an early return it stays */
__CPROVER_ensures(g_removed_before_close == 0 && (g_removed_in ==> g_out_closed) && (!g_out_created ==> !g_removed_in))
__CPROVER_ensures(g_in_text_mode == 0)                                                           /* the input is read as BYTES */
/* byte layout at the arbitrary offset g_o of a completed output */
__CPROVER_ensures(g_out_closed ==> g_out_pos == 18 + P_LEN(g_zlen))
__CPROVER_ensures((g_out_closed && g_o == 0) ==> (g_ob_kind == B_CONST && g_ob_val == 0x1f))
__CPROVER_ensures((g_out_closed && g_o == 1) ==> (g_ob_kind == B_CONST && g_ob_val == 0x8b))
__CPROVER_ensures((g_out_closed && g_o == 2) ==> (g_ob_kind == B_CONST && g_ob_val == 0x08))
__CPROVER_ensures((g_out_closed && g_o >= 3 && g_o <= 8) ==> (g_ob_kind == B_CONST && g_ob_val == 0x00))
__CPROVER_ensures((g_out_closed && g_o == 9) ==> (g_ob_kind == B_CONST && g_ob_val == 0x03))
__CPROVER_ensures((g_out_closed && g_o >= 10 && g_o < 10 + P_LEN(g_zlen)) ==> (g_ob_kind == B_Z && g_ob_src == __CPROVER_uninterpreted_zlib_of(g_in_data) && g_ob_val == 6 + (g_o - 10)))
__CPROVER_ensures((g_out_closed && g_o >= 10 + P_LEN(g_zlen) && g_o < 14 + P_LEN(g_zlen)) ==> (g_ob_kind == B_CONST && g_ob_val == ((g_in_crc >> (8 * (unsigned)(g_o - 10 - P_LEN(g_zlen)))) & 0xffu)))
__CPROVER_ensures((g_out_closed && g_o >= 14 + P_LEN(g_zlen) && g_o < 18 + P_LEN(g_zlen)) ==> (g_ob_kind == B_CONST && g_ob_val == ((((unsigned int)(g_in_size & 0xffffffffLL)) >> (8 * (unsigned)(g_o - 14 - P_LEN(g_zlen)))) & 0xffu)));
