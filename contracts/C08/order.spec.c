// C08 (3/3) -- "the uncompressed file disappears only once the compressed one is complete": rotate() and compressFile() on the file-system
//              ledger with every open/remove allowed to fail (the other two units decide CRC and byte layout)
//@ tus sinks/rotatingfilesink.cpp sinks/filesink.cpp sinks/iodevicesink.cpp
//@ lower RotatingFileSink::send RotatingFileSink::RotatingFileSinkPrivate::init RotatingFileSink::RotatingFileSinkPrivate::rotateIfNeeded
//@ lower RotatingFileSink::RotatingFileSinkPrivate::rotate RotatingFileSink::RotatingFileSinkPrivate::removeOldFiles RotatingFileSink::RotatingFileSinkPrivate::findRotatedFiles
//@ lower RotatingFileSink::RotatingFileSinkPrivate::compressFile RotatingFileSink::RotatingFileSinkPrivate::findNextIndexForDate RotatingFileSink::RotatingFileSinkPrivate::generateRotatedFileName
//@ lower RotatingFileSink::RotatingFileSinkPrivate::checkSizeRotation RotatingFileSink::RotatingFileSinkPrivate::checkDailyRotation RotatingFileSink::RotatingFileSinkPrivate::checkStartupRotation
//@ lower RotatingFileSink::RotatingFileSinkPrivate::baseDir IODeviceSink::send FileSink::file IODeviceSink::device LogMessage::formattedMessage LogMessage::time LogMessage::isFormatted
//@ enforce RotatingFileSink_RotatingFileSinkPrivate_rotate timeout=900
//@ enforce RotatingFileSink_RotatingFileSinkPrivate_compressFile
#define PROP_C08 1
#define FS_FAILURES 1
#include "contracts/fs_part1.h"
//@ ---
#include "contracts/fs_common.h"

/* the message as the ledger sees it */
#define FM(m) ((m)->m_formattedMessage.isnull ? (m)->m_message : (m)->m_formattedMessage)
#define MSG_TIED(m) (QSTRING_VALID((m)->m_formattedMessage) && QSTRING_VALID((m)->m_message) && FM(m).tag == T_FORMATTED && FM(m).id == g_msg_fm_id && FM(m).isnull == g_msg_fm_isnull \
    && g_msg_utf8 >= 0 && g_msg_utf8 <= INT_MAXV - 64 && (m)->m_time.jd == g_msg_jd && g_msg_jd > -4000000000LL && g_msg_jd < 4000000000LL)

/* CRC computation: reads the input file only (its value: C08) */
unsigned int calculateCRC32(QFile *file) __CPROVER_requires(file != NULL) __CPROVER_assigns() __CPROVER_ensures(1);

/* compressFile(path of the file just rotated): at EVERY operation boundary inside it (SAFE_POINT obligations of the models) and for
 * every single failure of the two opens and of the final remove, the records of the rotated file are in an intact file: the
 * uncompressed original disappears only after the compressed copy has been written completely and closed */
void RotatingFileSink_RotatingFileSinkPrivate_compressFile(Priv *self, QString filePath)
__CPROVER_requires(PRIV_OK(self) && LEDGER_OK() && LEDGER_RANGE2() && g_gz_exists == 0)
__CPROVER_requires(g_new.exists && !g_new.gz && filePath.tag == T_ROTPATH && !filePath.gz && filePath.jd == g_new.jd && filePath.idx == g_new.idx && NEW_FRESH())
__CPROVER_assigns(g_w[0].gz, g_w[1].gz, g_new.gz, g_R_count, g_gz_exists, g_gz_complete, g_gz_has_all, g_comp_removes, g_out_hdr, g_out_payload, g_out_trailer, g_lost, g_foreign_touched)
__CPROVER_ensures(LEDGER_OK() && LEDGER_RANGE2() && g_foreign_touched == __CPROVER_old(g_foreign_touched))
__CPROVER_ensures(g_gz_exists == 0);

