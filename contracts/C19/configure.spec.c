// C19 -- configuration front-ends build the documented pipeline (PARTIAL: bytes on the outputs are the handlers' own properties) (DESIGN 3, C19)
//@ tus configure.cpp logger.cpp
//@ lower configure#PipelineP_QString_int_int_QFlags_RotatingFileSink_Option_BOOL configure#PipelineP_QSettings_QString
//@ lower Logger::installMessageHandler Logger::restorePreviousMessageHandler
//@ structs LogMessage Logger
//@ enforce configure__PipelineP_QString_int_int_QFlags_RotatingFileSink_Option_BOOL
//@ enforce configure__PipelineP_QSettings_QString
//@ enforce lambda_configure__PipelineP_QString_int_int_QFlags_RotatingFileSink_Option_BOOL_0
//@ enforce Logger_installMessageHandler
//@ enforce Logger_restorePreviousMessageHandler
//@ lemma lemma_install_restore_histories
#define VERIF_OWN_QVARIANT 1
#define VERIF_OWN_QSTRINGLIST 1
#include "models/thread.h"
/* ---- ghost TRACE of the handlers appended to the pipeline, in order, with their construction parameters ---- */
enum { H_NONE = 0, H_PRETTY_NEW, H_PRETTY_INSTANCE, H_STDERR, H_STDOUT, H_FUNCFMT, H_ROTFILE, H_FILE, H_CATFILTER, H_REGEXPFILTER, H_PATTERN, H_SYSLOG };
typedef struct { int kind; long long a, b, c, d; } HRec;
#define TCAP 12
int g_tr_n; HRec g_tr[TCAP];
typedef struct { HRec r; } QSharedPointer_Handler;
#define SP(T) typedef struct { HRec r; } QSharedPointer_##T; static inline QSharedPointer_Handler QSharedPointer_Handler_ctor__QSharedPointer_##T(QSharedPointer_##T x) { QSharedPointer_Handler h; h.r = x.r; return h; }
SP(PrettyFormatter) SP(StdErrSink) SP(StdOutSink) SP(FunctionFormatter) SP(RotatingFileSink) SP(FileSink) SP(CategoryFilter) SP(RegExpFilter) SP(PatternFormatter) SP(SyslogSink)
#define MK(T, K, A, B, C, D) QSharedPointer_##T p; p.r.kind = K; p.r.a = A; p.r.b = B; p.r.c = C; p.r.d = D; return p;
typedef struct { int v; } QFlags_RotatingFileSink_Option;
static inline BOOL QFlags_RotatingFileSink_Option_testFlag__RotatingFileSink_Option(QFlags_RotatingFileSink_Option f, int bit) { return (f.v & bit) == bit && (bit != 0 || f.v == 0); }
static inline QFlags_RotatingFileSink_Option QFlags_RotatingFileSink_Option_ctor__RotatingFileSink_Option(int b) { QFlags_RotatingFileSink_Option f; f.v = b; return f; }
static inline QFlags_RotatingFileSink_Option *QFlags_RotatingFileSink_Option_op_orassign__RotatingFileSink_Option(QFlags_RotatingFileSink_Option *f, int b) { f->v |= b; return f; }
enum { COLOR_AUTO = 0, COLOR_ALWAYS = 1, COLOR_NEVER = 2 };
static inline QSharedPointer_PrettyFormatter QSharedPointer_PrettyFormatter_create__BOOL(BOOL color) { MK(PrettyFormatter, H_PRETTY_NEW, color, 0, 0, 0) }
static inline QSharedPointer_PrettyFormatter PrettyFormatter_instance(void) { MK(PrettyFormatter, H_PRETTY_INSTANCE, 0, 0, 0, 0) }
static inline QSharedPointer_StdErrSink QSharedPointer_StdErrSink_create(void) { MK(StdErrSink, H_STDERR, -1, 0, 0, 0) }                      /* PlatformStdSink on this platform: stderr, default colour mode */
static inline QSharedPointer_StdErrSink QSharedPointer_StdErrSink_create__ColorMode(int m) { MK(StdErrSink, H_STDERR, m, 0, 0, 0) }
static inline QSharedPointer_StdOutSink QSharedPointer_StdOutSink_create__ColorMode(int m) { MK(StdOutSink, H_STDOUT, m, 0, 0, 0) }
static inline QSharedPointer_FunctionFormatter QSharedPointer_FunctionFormatter_create__lambda_t(lambda_t l) { MK(FunctionFormatter, H_FUNCFMT, l.id, 0, 0, 0) }
static inline QSharedPointer_RotatingFileSink QSharedPointer_RotatingFileSink_create__QString_int_int_QFlags_RotatingFileSink_Option(QString path, int size, int count, QFlags_RotatingFileSink_Option *o) { MK(RotatingFileSink, H_ROTFILE, path.id, size, count, o->v) }
static inline QSharedPointer_FileSink QSharedPointer_FileSink_create__QString(QString path) { MK(FileSink, H_FILE, path.id, 0, 0, 0) }
static inline QSharedPointer_CategoryFilter QSharedPointer_CategoryFilter_create__QString(QString rules) { MK(CategoryFilter, H_CATFILTER, rules.id, 0, 0, 0) }
static inline QSharedPointer_RegExpFilter QSharedPointer_RegExpFilter_create__QString(QString re) { MK(RegExpFilter, H_REGEXPFILTER, re.id, 0, 0, 0) }
static inline QSharedPointer_PatternFormatter QSharedPointer_PatternFormatter_create__QString(QString pat) { MK(PatternFormatter, H_PATTERN, pat.id, 0, 0, 0) }
static inline QSharedPointer_SyslogSink QSharedPointer_SyslogSink_create__QString(QString ident) { MK(SyslogSink, H_SYSLOG, ident.id, 0, 0, 0) }

/* ---- QSettings: per key (identified by its literal) presence and value are uninterpreted: all INI contents at once ---- */
BOOL __CPROVER_uninterpreted_ini_present(int key); int __CPROVER_uninterpreted_ini_str(int key); int __CPROVER_uninterpreted_ini_strlen(int key);
BOOL __CPROVER_uninterpreted_ini_bool(int key); int __CPROVER_uninterpreted_ini_int(int key);
typedef struct { int _s; } QSettings;
typedef struct { int key; int has_dflt; long long dflt; } QVariant;
typedef struct { int id; } QVariantHash;
#define GROUP_ID 4242
static inline QString op_plus__QString_QString(QString a, QString b) { QString r = b; r.tag = (a.id == GROUP_ID) ? 1 : 0; return r; }           /* group + "/key": the key literal, under the group */
static inline QVariant QVariant_ctor(void) { QVariant v; v.key = 0; v.has_dflt = 0; v.dflt = 0; return v; }      /* invalid QVariant: value(key, QVariant()) == value(key) */
static inline QVariant QVariant_ctor__BOOL(BOOL b) { QVariant v; v.key = 0; v.has_dflt = 1; v.dflt = b; return v; }
static inline QVariant QVariant_ctor__int(int i) { QVariant v; v.key = 0; v.has_dflt = 1; v.dflt = i; return v; }
static inline QVariant QSettings_value__QString(QSettings *s, QString key) { QVariant v; v.key = key.tag == 1 ? key.id : 0; v.has_dflt = 0; v.dflt = 0; return v; }
static inline QVariant QSettings_value__QString_QVariant(QSettings *s, QString key, QVariant d) { QVariant v = d; v.key = key.tag == 1 ? key.id : 0; return v; }
#define INI_HAS(k) ((k) != 0 && __CPROVER_uninterpreted_ini_present(k) != 0)
static inline QString QVariant_toString(QVariant v)
{ QString s; s.tag = 0; if (INI_HAS(v.key)) { s.isnull = 0; s.id = __CPROVER_uninterpreted_ini_str(v.key); s.len = __CPROVER_uninterpreted_ini_strlen(v.key); __CPROVER_assume(s.len >= 0); } else { s.isnull = 1; s.id = 0; s.len = 0; } return s; }
static inline BOOL QVariant_toBool(QVariant v) { return INI_HAS(v.key) ? (__CPROVER_uninterpreted_ini_bool(v.key) != 0) : (v.dflt != 0); }
static inline int QVariant_toInt(QVariant v) { return INI_HAS(v.key) ? __CPROVER_uninterpreted_ini_int(v.key) : (int)v.dflt; }

/* ---- regular expression of the ANSI-stripping formatter (A-regex: its literal text is in the evidence) ---- */
typedef struct { int id; } QRegularExpression;
static inline QRegularExpression QRegularExpression_ctor__QString(QString p) { QRegularExpression r; r.id = p.id; return r; }
int __CPROVER_uninterpreted_remove_all(int text, int pattern);
static inline QString *QString_remove__QRegularExpression(QString *s, QRegularExpression re) { s->id = __CPROVER_uninterpreted_remove_all(s->id, re.id); return s; }

/* ---- qInstallMessageHandler: Qt keeps ONE current handler; installing returns the previous one (Qt's default if none was set) ---- */
typedef void (*voidPQtMsgType_QMessageLogContextR_QStringR)(QtMsgType, QMessageLogContext, QString);
typedef voidPQtMsgType_QMessageLogContextR_QStringR MH;
void qt_default_message_handler(QtMsgType t, QMessageLogContext c, QString m);
MH g_current_handler;            /* 0 stands for Qt's built-in default handler */
static inline MH qInstallMessageHandler__voidPQtMsgType_QMessageLogContextR_QStringR(MH h)
{ MH prev = g_current_handler ? g_current_handler : qt_default_message_handler; g_current_handler = (h == 0 || h == qt_default_message_handler) ? (MH)0 : h; return prev; }
typedef struct { Logger *p; } QBasicAtomicPointer_Logger; typedef struct { QBasicAtomicPointer_Logger _base; } QAtomicPointer_Logger;
typedef struct { Handler *p; } QSharedPointer_Handler_unused; typedef struct { int n; } QList_QSharedPointer_Handler;
//@ ---
static inline Pipeline *Pipeline_op_shl(Pipeline *p, QSharedPointer_Handler h)
{ __CPROVER_assert(g_tr_n >= 0 && g_tr_n < TCAP, "trace within the model's capacity"); g_tr[g_tr_n] = h.r; g_tr_n = g_tr_n + 1; return p; }
/* dynamic_cast<OwnThreadHandler<SimplePipeline>*>(pipeline) and moveToOwnThread() */
int g_is_oth; unsigned long long g_moves; OwnThreadHandler_SimplePipeline g_oth_obj;
static inline OwnThreadHandler_SimplePipeline *dynamic_cast_OwnThreadHandler_SimplePipelineP__PipelineP(Pipeline *p) { return g_is_oth ? &g_oth_obj : (OwnThreadHandler_SimplePipeline *)0; }
OwnThreadHandler_SimplePipeline *OwnThreadHandler_SimplePipeline_moveToOwnThread(OwnThreadHandler_SimplePipeline *self)
__CPROVER_requires(self == &g_oth_obj) __CPROVER_assigns(g_moves) __CPROVER_ensures(g_moves == __CPROVER_old(g_moves) + 1 && __CPROVER_return_value == self);
QString LogMessage_formattedMessage(LogMessage *self) __CPROVER_assigns() __CPROVER_ensures(__CPROVER_return_value.id == (self->m_formattedMessage.isnull ? self->m_message.id : self->m_formattedMessage.id));

#define TR(i) g_tr[i]
#define IS(i, K, A, B, C, D) (TR(i).kind == (K) && TR(i).a == (A) && TR(i).b == (B) && TR(i).c == (C) && TR(i).d == (D))
#define OPT_STARTUP 1
#define OPT_DAILY 2
#define OPT_COMPRESS 4

/* the function formatter put in front of the file sink: the console text minus its terminal colour codes */
static QString lambda_configure__PipelineP_QString_int_int_QFlags_RotatingFileSink_Option_BOOL_0(LogMessage *lmsg)
__CPROVER_requires(__CPROVER_is_fresh(lmsg, sizeof(*lmsg)))
__CPROVER_assigns()
__CPROVER_ensures(__CPROVER_return_value.id == __CPROVER_uninterpreted_remove_all(lmsg->m_formattedMessage.isnull ? lmsg->m_message.id : lmsg->m_formattedMessage.id, LIT_____0_9___m_1d75de5d));

/* one-line configure(): pretty coloured console output (platform log = stderr), and for a non-empty path the colour-stripping formatter followed by
 * a rotating sink (if a size limit or a startup/daily option asks for rotation) or a plain file sink; async iff requested and possible */
void configure__PipelineP_QString_int_int_QFlags_RotatingFileSink_Option_BOOL(Pipeline *pipeline, QString path, int maxFileSize, int maxFileCount, QFlags_RotatingFileSink_Option options, BOOL async)
__CPROVER_requires((pipeline == NULL || __CPROVER_is_fresh(pipeline, sizeof(*pipeline))) && QSTRING_VALID(path) && IS_BOOL(async) && IS_BOOL(g_is_oth) && g_tr_n == 0 && options.v >= 0 && options.v <= 7)
__CPROVER_assigns(g_tr_n, g_tr, g_moves)
__CPROVER_ensures(pipeline == NULL ==> (g_tr_n == 0 && g_moves == __CPROVER_old(g_moves)))
__CPROVER_ensures(pipeline != NULL ==> (g_tr_n == (path.len == 0 ? 2 : 4) && IS(0, H_PRETTY_NEW, 1, 0, 0, 0) && IS(1, H_STDERR, -1, 0, 0, 0)))
__CPROVER_ensures((pipeline != NULL && path.len != 0) ==> IS(2, H_FUNCFMT, LAMBDA_lambda_configure__PipelineP_QString_int_int_QFlags_RotatingFileSink_Option_BOOL_0, 0, 0, 0))
__CPROVER_ensures((pipeline != NULL && path.len != 0 && (maxFileSize > 0 || (options.v & OPT_STARTUP) || (options.v & OPT_DAILY))) ==> IS(3, H_ROTFILE, path.id, maxFileSize, maxFileCount, options.v))
__CPROVER_ensures((pipeline != NULL && path.len != 0 && !(maxFileSize > 0 || (options.v & OPT_STARTUP) || (options.v & OPT_DAILY))) ==> IS(3, H_FILE, path.id, 0, 0, 0))
__CPROVER_ensures(pipeline != NULL ==> g_moves == __CPROVER_old(g_moves) + ((async && g_is_oth) ? 1 : 0));

/* INI configure(): for EVERY content of the settings (presence and value of each key uninterpreted), the handlers are appended in the documented
 * order, each present iff its key asks for it, with the documented defaults */
#define K_RULES LIT__filter_rules_008474ee
#define K_REGEXP LIT__regexp_filter_1283bc0c
#define K_PATTERN LIT__message_pattern_11899277
#define K_STDOUT LIT__stdout_17927bb4
#define K_STDOUTC LIT__stdout_color_3cb82e52
#define K_STDERR LIT__stderr_3c27cd90
#define K_STDERRC LIT__stderr_color_008398ef
#define K_PLATFORM LIT__platform_std_log_07b85424
#define K_SYSLOG LIT__syslog_ident_12865eea
#define K_PATH LIT__path_2fa31bdb
#define SSTR(k) (INI_HAS(k) && __CPROVER_uninterpreted_ini_strlen(k) != 0)
#define SID(k) (__CPROVER_uninterpreted_ini_str(k))
#define SBOOL(k, d) (INI_HAS(k) ? (__CPROVER_uninterpreted_ini_bool(k) != 0) : (d))
#define SINT(k, d) (INI_HAS(k) ? __CPROVER_uninterpreted_ini_int(k) : (d))
#define N1 (SSTR(K_RULES) ? 1 : 0)
#define N2 (N1 + (SSTR(K_REGEXP) ? 1 : 0))
#define N3 (N2 + 1)
#define WANT_OUT (SBOOL(K_STDOUT, 0) || SBOOL(K_STDOUTC, 0))
#define WANT_ERR (SBOOL(K_STDERR, 0) || SBOOL(K_STDERRC, 0))
#define N4 (N3 + (WANT_OUT ? 1 : 0))
#define N5 (N4 + (WANT_ERR ? 1 : 0))
#define N6 (N5 + (SBOOL(K_PLATFORM, 1) ? 1 : 0))
#define N7 (N6 + (SSTR(K_SYSLOG) ? 1 : 0))
#define N8 (N7 + (SSTR(K_PATH) ? 1 : 0))
void configure__PipelineP_QSettings_QString(Pipeline *pipeline, QSettings settings, QString group)
__CPROVER_requires((pipeline == NULL || __CPROVER_is_fresh(pipeline, sizeof(*pipeline))) && group.id == GROUP_ID && IS_BOOL(g_is_oth) && g_tr_n == 0)
__CPROVER_assigns(g_tr_n, g_tr, g_moves)
__CPROVER_ensures(pipeline == NULL ==> (g_tr_n == 0 && g_moves == __CPROVER_old(g_moves)))
__CPROVER_ensures(pipeline != NULL ==> g_tr_n == N8)
__CPROVER_ensures((pipeline != NULL && SSTR(K_RULES)) ==> IS(0, H_CATFILTER, SID(K_RULES), 0, 0, 0))
__CPROVER_ensures((pipeline != NULL && SSTR(K_REGEXP)) ==> IS(N1, H_REGEXPFILTER, SID(K_REGEXP), 0, 0, 0))
__CPROVER_ensures(pipeline != NULL ==> (SSTR(K_PATTERN) ? IS(N2, H_PATTERN, SID(K_PATTERN), 0, 0, 0) : IS(N2, H_PRETTY_INSTANCE, 0, 0, 0, 0)))
__CPROVER_ensures((pipeline != NULL && WANT_OUT) ==> IS(N3, H_STDOUT, SBOOL(K_STDOUTC, 0) ? COLOR_AUTO : COLOR_NEVER, 0, 0, 0))
__CPROVER_ensures((pipeline != NULL && WANT_ERR) ==> IS(N4, H_STDERR, SBOOL(K_STDERRC, 0) ? COLOR_AUTO : COLOR_NEVER, 0, 0, 0))
__CPROVER_ensures((pipeline != NULL && SBOOL(K_PLATFORM, 1)) ==> IS(N5, H_STDERR, -1, 0, 0, 0))
__CPROVER_ensures((pipeline != NULL && SSTR(K_SYSLOG)) ==> IS(N6, H_SYSLOG, SID(K_SYSLOG), 0, 0, 0))
__CPROVER_ensures((pipeline != NULL && SSTR(K_PATH)) ==> IS(N7, H_ROTFILE, SID(K_PATH), SINT(LITX__max_file_size, 1048576), SINT(LITX__max_file_count, 5), \
        (SBOOL(LITX__rotate_on_startup, 1) ? OPT_STARTUP : 0) | (SBOOL(LITX__rotate_daily, 0) ? OPT_DAILY : 0) | (SBOOL(LITX__compress_old_files, 0) ? OPT_COMPRESS : 0)))
__CPROVER_ensures(pipeline != NULL ==> g_moves == __CPROVER_old(g_moves) + ((SBOOL(LITX__async, 0) && g_is_oth) ? 1 : 0));

/* ---- install / restore ---- */
QAtomicPointer_Logger g_activeLogger; MH g_previousMessageHandler;
static inline void QBasicAtomicPointer_Logger_storeRelease__LoggerP(QBasicAtomicPointer_Logger *a, Logger *l) { a->p = l; }
void Logger_messageHandler(QtMsgType type, QMessageLogContext context, QString message);
/* invariant over all histories: the remembered handler is never our own */
void foreign_handler_a(QtMsgType t, QMessageLogContext c, QString m); void foreign_handler_b(QtMsgType t, QMessageLogContext c, QString m);
/* handlers are: none/Qt's default (0), ours, or a foreign one (two distinct representatives) */
#define HANDLERS_OK() ((g_current_handler == 0 || g_current_handler == Logger_messageHandler || g_current_handler == foreign_handler_a || g_current_handler == foreign_handler_b) \
    && (g_previousMessageHandler == 0 || g_previousMessageHandler == qt_default_message_handler || g_previousMessageHandler == foreign_handler_a || g_previousMessageHandler == foreign_handler_b))
#define INV_PREV() (g_previousMessageHandler != Logger_messageHandler && HANDLERS_OK())
void Logger_installMessageHandler(Logger *self)
__CPROVER_requires(__CPROVER_is_fresh(self, sizeof(*self)) && INV_PREV())
__CPROVER_assigns(g_activeLogger._base.p, g_current_handler, g_previousMessageHandler)
__CPROVER_ensures(g_activeLogger._base.p == self && g_current_handler == Logger_messageHandler && INV_PREV())
/* first install (ours was not current): remember what was current (Qt's default if nothing); a repeated install keeps the remembered one */
__CPROVER_ensures(__CPROVER_old(g_current_handler) != Logger_messageHandler ==> g_previousMessageHandler == (__CPROVER_old(g_current_handler) ? __CPROVER_old(g_current_handler) : qt_default_message_handler))
__CPROVER_ensures(__CPROVER_old(g_current_handler) == Logger_messageHandler ==> g_previousMessageHandler == __CPROVER_old(g_previousMessageHandler));
void Logger_restorePreviousMessageHandler(void)
__CPROVER_requires(INV_PREV())
__CPROVER_assigns(g_current_handler, g_previousMessageHandler)
__CPROVER_ensures(g_previousMessageHandler == 0)
/* nothing remembered: nothing happens; ours is current: the remembered handler is reinstated; a newer foreign handler stays in place */
__CPROVER_ensures(__CPROVER_old(g_previousMessageHandler) == 0 ==> g_current_handler == __CPROVER_old(g_current_handler))
__CPROVER_ensures((__CPROVER_old(g_previousMessageHandler) != 0 && __CPROVER_old(g_current_handler) == Logger_messageHandler) ==> g_current_handler == (__CPROVER_old(g_previousMessageHandler) == qt_default_message_handler ? (MH)0 : __CPROVER_old(g_previousMessageHandler)))
__CPROVER_ensures((__CPROVER_old(g_previousMessageHandler) != 0 && __CPROVER_old(g_current_handler) != Logger_messageHandler) ==> g_current_handler == __CPROVER_old(g_current_handler));

/* histories: [foreign f0 current] install, install, ..., restore  ==> f0 current again, however often install was called; and a foreign
 * handler installed after ours survives restore */
void lemma_install_restore_histories(void)
{
    Logger *l = malloc(sizeof(Logger)); LEMMA_REQUIRES(l != 0);
    MH f0 = nondet_int() ? foreign_handler_a : (MH)0;          /* a foreign handler, or Qt's default */
    g_current_handler = f0; g_previousMessageHandler = 0;
    Logger_installMessageHandler(l);
    if (nondet_int()) Logger_installMessageHandler(l);
    if (nondet_int()) Logger_installMessageHandler(l);
    int foreign_later = nondet_int();
    if (foreign_later) qInstallMessageHandler__voidPQtMsgType_QMessageLogContextR_QStringR(foreign_handler_b);
    Logger_restorePreviousMessageHandler();
    __CPROVER_assert(foreign_later || g_current_handler == f0, "restore reinstates the handler that was active before the logger was FIRST installed, however often install was called");
    __CPROVER_assert(!foreign_later || g_current_handler == foreign_handler_b, "a newer foreign handler is left in place");
    __CPROVER_assert(g_previousMessageHandler == 0, "nothing remembered afterwards");
    LEMMA_END;
}
