// C14 (1/4) -- FunctionToken::cleanup(): every index in range, no integer overflow, every loop terminates, for EVERY byte string
// given as function signature (DESIGN 3, C14).  Content is arbitrary (models/len.h): each character read returns any value and
// each search returns any position the lengths allow, so the proof covers every content.
//@ tus formatters/patternformatter.cpp
//@ lower FunctionToken::cleanup
//@ enforce lambda_FunctionToken_cleanup_0
//@ enforce FunctionToken_cleanup timeout=900
#include "models/len.h"
unsigned short g_wch; int g_src_wpos;
//@ ---
/* findBalancedReverse(open, close, startPos): scans func[0 .. startPos) backwards; -1 or the position of the balancing bracket */
static int lambda_FunctionToken_cleanup_0(QByteArray *func, char open, char close, int startPos)
__CPROVER_requires(__CPROVER_is_fresh(func, sizeof(*func)) && QBYTEARRAY_VALID(*func) && startPos <= func->len)
__CPROVER_assigns()
__CPROVER_ensures(__CPROVER_return_value == -1 || (__CPROVER_return_value >= 0 && __CPROVER_return_value < startPos));
#if defined(LOOPKIND_lambda_FunctionToken_cleanup_0_0_while)
#define LOOP_lambda_FunctionToken_cleanup_0_0 \
  __CPROVER_loop_invariant(-1 <= pos && pos < startPos && 0 <= count && count <= startPos - pos && (count != 0 || pos <= startPos - 2)) \
  __CPROVER_decreases(pos + 1)
#endif

QByteArray FunctionToken_cleanup(QByteArray func)
__CPROVER_requires(QBYTEARRAY_VALID(func))
__CPROVER_assigns()
__CPROVER_ensures(QBYTEARRAY_VALID(__CPROVER_return_value) && __CPROVER_return_value.len <= func.len);   /* the clean-up only removes text */

#define FUNC_OK (0 <= func.len && func.len <= LEN_MAX)
/* 0: strip trailing blanks */
#if defined(LOOPKIND_FunctionToken_cleanup_0_while)
#define LOOP_FunctionToken_cleanup_0 __CPROVER_loop_invariant(FUNC_OK && func.len <= __CPROVER_loop_entry(func.len)) __CPROVER_decreases(func.len)
#endif
/* 1: find the argument parenthesis of a function-pointer return type */
#if defined(LOOPKIND_FunctionToken_cleanup_1_for) && defined(HASVAR_FunctionToken_cleanup_parenDepth) && defined(HASVAR_FunctionToken_cleanup_argsParen)
#define LOOP_FunctionToken_cleanup_1 \
  __CPROVER_loop_invariant(nameStart <= i && (i <= parenOpenIdx || i == nameStart) && nameStart - i <= parenDepth && parenDepth <= i - nameStart && (argsParen == -1 || (nameStart <= argsParen && argsParen < i))) \
  __CPROVER_decreases((long long)parenOpenIdx - (long long)i + 2)
#endif
/* 2: strip trailing qualifiers until none is left; 3: the five qualifiers */
#if defined(LOOPKIND_FunctionToken_cleanup_2_do) && defined(LOOPKIND_FunctionToken_cleanup_3_range_for)
#define LOOP_FunctionToken_cleanup_2 __CPROVER_loop_invariant(FUNC_OK && func.len <= __CPROVER_loop_entry(func.len)) __CPROVER_decreases(func.len)
#define LOOP_FunctionToken_cleanup_3 \
  __CPROVER_loop_invariant(__CPROVER_same_object(__begin4, qualifiers) && __CPROVER_POINTER_OFFSET(__begin4) <= 5 * sizeof(cstr) && __CPROVER_POINTER_OFFSET(__begin4) % sizeof(cstr) == 0 && found == 0 && func.len == __CPROVER_loop_entry(func.len)) \
  __CPROVER_decreases(5 * sizeof(cstr) - __CPROVER_POINTER_OFFSET(__begin4))
#endif
/* 4..7: walk back over the scope qualifiers in front of "operator" */
#if defined(LOOPKIND_FunctionToken_cleanup_4_while) && defined(LOOPKIND_FunctionToken_cleanup_5_while) && defined(LOOPKIND_FunctionToken_cleanup_6_while) && defined(LOOPKIND_FunctionToken_cleanup_7_while)
#define LOOP_FunctionToken_cleanup_4 __CPROVER_loop_invariant(-1 <= scanPos && scanPos < operatorPos) __CPROVER_decreases(scanPos + 1)
#define LOOP_FunctionToken_cleanup_5 __CPROVER_loop_invariant(-3 <= scanPos && scanPos < operatorPos && operatorPos <= func.len - 8 && extracted == 0 && FUNC_OK) __CPROVER_decreases(scanPos + 3)
#define LOOP_FunctionToken_cleanup_6 __CPROVER_loop_invariant(-1 <= scanPos && scanPos < operatorPos && scanPos <= __CPROVER_loop_entry(scanPos)) __CPROVER_decreases(scanPos + 1)
#define LOOP_FunctionToken_cleanup_7 __CPROVER_loop_invariant(-1 <= scanPos && scanPos < operatorPos && scanPos <= __CPROVER_loop_entry(scanPos)) __CPROVER_decreases(scanPos + 1)
#endif
/* 8: no "operator": walk back to the blank in front of the name, skipping balanced (...) and <...> */
#if defined(LOOPKIND_FunctionToken_cleanup_8_while) && defined(HASVAR_FunctionToken_cleanup_parenCount) && defined(HASVAR_FunctionToken_cleanup_angleCount)
#define LOOP_FunctionToken_cleanup_8 \
  __CPROVER_loop_invariant(-1 <= pos && pos < func.len && FUNC_OK && func.len == __CPROVER_loop_entry(func.len) && 0 <= parenCount && parenCount <= func.len - 1 - pos && 0 <= angleCount && angleCount <= func.len - 1 - pos) \
  __CPROVER_decreases(pos + 1)
#endif
/* 9: strip leading '*', '&', ' ' */
#if defined(LOOPKIND_FunctionToken_cleanup_9_while)
#define LOOP_FunctionToken_cleanup_9 __CPROVER_loop_invariant(FUNC_OK && func.len <= __CPROVER_loop_entry(func.len)) __CPROVER_decreases(func.len)
#endif
/* 10: remove "()" in front of "::"; each round either moves pos forward by 4 or removes 2 bytes; 11: template test */
#if defined(LOOPKIND_FunctionToken_cleanup_10_while) && defined(LOOPKIND_FunctionToken_cleanup_11_for) && defined(HASVAR_FunctionToken_cleanup_angleDepth)
#define LOOP_FunctionToken_cleanup_10 \
  __CPROVER_loop_invariant(0 <= pos && pos <= func.len && FUNC_OK && func.len <= __CPROVER_loop_entry(func.len)) \
  __CPROVER_decreases(2 * (long long)func.len - (long long)pos)
#define LOOP_FunctionToken_cleanup_11 \
  __CPROVER_loop_invariant(-1 <= i && i < pos && 0 <= angleDepth && angleDepth <= pos - 1 - i && insideTemplate == 0) \
  __CPROVER_decreases(i + 1)
#endif
/* 12: remove template parameters: every round removes at least "<>" or stops; 13: is it an operator symbol? */
#if defined(LOOPKIND_FunctionToken_cleanup_12_while) && defined(LOOPKIND_FunctionToken_cleanup_13_for)
#define LOOP_FunctionToken_cleanup_12 __CPROVER_loop_invariant(FUNC_OK && func.len <= __CPROVER_loop_entry(func.len)) __CPROVER_decreases(func.len)
#define LOOP_FunctionToken_cleanup_13 \
  __CPROVER_loop_invariant(operatorEnd <= i && i <= closeAngle + 1 && isOperatorSymbol == 1) \
  __CPROVER_decreases((long long)closeAngle - (long long)i + 1)
#endif
