// C14 (2/4) -- format specification parsing, padding and every token's appendToString: every index in range, no integer overflow,
// every loop terminates, for every spec string / value / destination buffer (DESIGN 3, C14)
//@ tus formatters/patternformatter.cpp
//@ lower FormattedToken::parseFormatSpec FormattedToken::applyPadding FormattedToken::charToAlignment
//@ lower LiteralToken::appendToString MessageToken::appendToString TypeToken::appendToString LineToken::appendToString FileToken::appendToString
//@ lower ShortFileToken::appendToString FunctionToken::appendToString CategoryToken::appendToString ThreadIdToken::appendToString
//@ lower AttributeToken::appendToString TimeToken::appendToString QThreadPtrToken::appendToString
//@ enforce FormattedToken_parseFormatSpec
//@ enforce FormattedToken_applyPadding
//@ enforce LiteralToken_appendToString
//@ enforce MessageToken_appendToString
//@ enforce TypeToken_appendToString
//@ enforce LineToken_appendToString
//@ enforce FileToken_appendToString
//@ enforce ShortFileToken_appendToString
//@ enforce FunctionToken_appendToString
//@ enforce CategoryToken_appendToString
//@ enforce ThreadIdToken_appendToString
//@ enforce AttributeToken_appendToString
//@ enforce TimeToken_appendToString
//@ enforce QThreadPtrToken_appendToString
#include "contracts/len_part1.h"
//@ ---
#include "contracts/len_common.h"
#define TOKEN_OK(self) (__CPROVER_is_fresh(self, sizeof(*self)) && SPEC_VALID((self)->_base.m_spec))
#define APPENDER(T, EXTRA) \
void T##_appendToString(T *self, LogMessage *lmsg, QString *dest) \
__CPROVER_requires(TOKEN_OK(self) && __CPROVER_is_fresh(lmsg, sizeof(*lmsg)) && LMSG_OK(lmsg) && __CPROVER_is_fresh(dest, sizeof(*dest)) && QSTRING_VALID(*dest) && (EXTRA)) \
__CPROVER_assigns(*dest) \
__CPROVER_ensures(QSTRING_VALID(*dest));
APPENDER(LiteralToken, QSTRING_VALID(self->m_text))
APPENDER(MessageToken, 1)
APPENDER(TypeToken, 1)
APPENDER(LineToken, 1)
APPENDER(FileToken, 1)
APPENDER(ShortFileToken, QSTRING_VALID(self->m_baseDir))
APPENDER(FunctionToken, IS_BOOL(self->m_cleanup))
APPENDER(CategoryToken, 1)
APPENDER(ThreadIdToken, 1)
APPENDER(AttributeToken, QSTRING_VALID(self->m_attributeName) && IS_BOOL(self->m_optional))
APPENDER(TimeToken, QSTRING_VALID(self->m_format))
APPENDER(QThreadPtrToken, 1)

/* LiteralToken: strip the trailing delete markers, one per round */
#if defined(LOOPKIND_LiteralToken_appendToString_0_while)
#define LOOP_LiteralToken_appendToString_0 \
  __CPROVER_loop_invariant(QSTRING_VALID(*dest) && removeCount >= 0 && removeCount <= LEN_MAX - dest->len) \
  __CPROVER_decreases(dest->len)
#endif
/* AttributeToken: removeAfter markers */
#if defined(LOOPKIND_AttributeToken_appendToString_0_for)
#define LOOP_AttributeToken_appendToString_0 \
  __CPROVER_loop_invariant(QSTRING_VALID(*dest) && i >= 0 && (i <= self->m_removeAfter || self->m_removeAfter < 0)) \
  __CPROVER_decreases((long long)self->m_removeAfter - (long long)i)
#endif
