// C14 (4/4) -- PrettyFormatter::format(): the type-letter table is indexed in range, widths and paddings do not overflow, for every
// message, category, thread and formatter state (DESIGN 3, C14).
// conversion=off: `m_threads.find(threadId)` narrows the 64-bit thread id to the int key of QHash<int,int>.  That conversion is
// implementation-defined (modular), not undefined, and UBSan's default set (the property's observation point) does not report it;
// signed overflow, shifts, division, bounds and pointers stay checked.
//@ tus formatters/prettyformatter.cpp
//@ lower PrettyFormatter::format
//@ enforce PrettyFormatter_format conversion=off
#define LEN_LIGHT
#include "contracts/len_part1.h"
//@ ---
steady_time_point g_processStartTime;
#define CSTR_OK(c) (CSTR_VALID(c) && (c).len <= LEN_MAX)
/* property quantifier: message / category / file / function texts of 0..64 KiB; the proof allows 2^28 units each (the sum
 * 30 + |category| + 4 + |message| + 80 is computed in int) */
#define TEXT_MAX 0x10000000
QString PrettyFormatter_format(PrettyFormatter *self, LogMessage *lmsg)
__CPROVER_requires(__CPROVER_is_fresh(self, sizeof(*self)) && IS_BOOL(self->m_colorize) && self->m_threads.n >= 0 && self->m_threadsIndex >= 0 && self->m_threadsIndex < 0x7fffffff
                   && self->m_categoryWidth >= 0)
__CPROVER_requires(__CPROVER_is_fresh(lmsg, sizeof(*lmsg)) && QSTRING_VALID(lmsg->m_message) && lmsg->m_message.len <= TEXT_MAX && CSTR_OK(lmsg->m_context.category) && lmsg->m_context.category.len <= TEXT_MAX
                   && QTMSGTYPE_VALID(lmsg->m_type))
__CPROVER_assigns(self->m_threads, self->m_threadsIndex, self->m_categoryWidth)
__CPROVER_ensures(QSTRING_VALID(__CPROVER_return_value) && self->m_categoryWidth >= 0 && self->m_threadsIndex >= 0 && self->m_threads.n >= 0);
