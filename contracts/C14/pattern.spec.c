// C14 (3/4) -- parsePattern() on every pattern string and format() on every token list: every index in range, no integer overflow,
// every loop terminates (DESIGN 3, C14)
//@ tus formatters/patternformatter.cpp
//@ lower PatternFormatter::PatternFormatterPrivate::parsePattern PatternFormatter::PatternFormatterPrivate::format
//@ enforce PatternFormatter_PatternFormatterPrivate_parsePattern timeout=1200
//@ enforce PatternFormatter_PatternFormatterPrivate_format
#define LEN_LIGHT      /* lengths only: parsePattern/format are proved safe for every content */
#include "contracts/len_part1.h"
/* QList<QSharedPointer<Token>>: length only; an element read gives "any token" (the object g_tok below) */
typedef struct Token Token;
typedef struct { Token *p; } QSharedPointer_Token;
typedef struct { int n; } QList_QSharedPointer_Token;
typedef QList_QSharedPointer_Token add_const_t_QList_QSharedPointer_Token;
typedef struct { int n; int i; } QList_QSharedPointer_Token_const_iterator;
static inline void QList_QSharedPointer_Token_clear(QList_QSharedPointer_Token *l) { l->n = 0; }
static inline BOOL QList_QSharedPointer_Token_isEmpty(QList_QSharedPointer_Token l) { return l.n == 0; }
static inline void QList_QSharedPointer_Token_append__QSharedPointer_Token(QList_QSharedPointer_Token *l, QSharedPointer_Token t)
{ __CPROVER_assert(t.p != NULL, "a token that is appended exists"); __CPROVER_assume(l->n < 0x7fffffff); /* A-alloc */ l->n = l->n + 1; }
static inline QList_QSharedPointer_Token_const_iterator QList_QSharedPointer_Token_begin(QList_QSharedPointer_Token *l) { QList_QSharedPointer_Token_const_iterator it; it.n = l->n; it.i = 0; return it; }
static inline QList_QSharedPointer_Token_const_iterator QList_QSharedPointer_Token_end(QList_QSharedPointer_Token *l) { QList_QSharedPointer_Token_const_iterator it; it.n = l->n; it.i = l->n; return it; }
static inline BOOL QList_QSharedPointer_Token_const_iterator_op_ne__QList_QSharedPointer_Token_const_iterator(QList_QSharedPointer_Token_const_iterator a, QList_QSharedPointer_Token_const_iterator b) { return a.i != b.i; }
static inline QList_QSharedPointer_Token_const_iterator *QList_QSharedPointer_Token_const_iterator_op_inc(QList_QSharedPointer_Token_const_iterator *it)
{ __CPROVER_assert(it->i < it->n, "C14 iterator: ++ on an iterator that is not end()"); it->i = it->i + 1; return it; }
//@ ---
#include "contracts/len_common.h"
Token g_tok;
static inline QSharedPointer_Token QList_QSharedPointer_Token_const_iterator_op_deref(QList_QSharedPointer_Token_const_iterator it)
{ __CPROVER_assert(it.i >= 0 && it.i < it.n, "C14 iterator: * on an iterator inside the list"); QSharedPointer_Token t; t.p = &g_tok; return t; }
static inline Token *QSharedPointer_Token_op_arrow(QSharedPointer_Token t) { __CPROVER_assert(t.p != NULL, "C14 pointer: -> on a non-null QSharedPointer"); return t.p; }
static inline Token *QSharedPointer_Token_data(QSharedPointer_Token t) { return t.p; }
static inline Token *QSharedPointer_Token_get(QSharedPointer_Token t) { return t.p; }
static inline QSharedPointer_Token QList_QSharedPointer_Token_at__int(QList_QSharedPointer_Token l, int i)
{ __CPROVER_assert(i >= 0 && i < l.n, "C14 index in range: QList::at(i) needs 0 <= i < size()"); QSharedPointer_Token t; t.p = &g_tok; return t; }
static inline QSharedPointer_Token QList_QSharedPointer_Token_op_index__int(QList_QSharedPointer_Token l, int i) { return QList_QSharedPointer_Token_at__int(l, i); }
static inline int QList_QSharedPointer_Token_size(QList_QSharedPointer_Token l) { return l.n; }
static inline int QList_QSharedPointer_Token_count(QList_QSharedPointer_Token l) { return l.n; }
static inline QSharedPointer_Token QSharedPointer_Token_ctor__FormattedTokenP(FormattedToken *t) { QSharedPointer_Token s; s.p = (Token *)t; return s; }
static inline QSharedPointer_Token QSharedPointer_Token_ctor__LiteralTokenP(LiteralToken *t) { QSharedPointer_Token s; s.p = (Token *)t; return s; }

/* new T inside the parsing loop: CBMC's loop contracts do not admit malloc inside a loop body ("dynamic allocation is allowed" fails), so a
 * new token is the per-class object below, made arbitrary at each allocation.  This is exact for parsePattern(): a token is used only
 * in the iteration that creates it (at most one per class and iteration), then handed to the list, which (abstract) forgets it. */
#define POOL(T) T pool_##T;
POOL(LiteralToken) POOL(TypeToken) POOL(LineToken) POOL(FileToken) POOL(ShortFileToken) POOL(FunctionToken) POOL(CategoryToken) POOL(TimeToken)
POOL(ThreadIdToken) POOL(QThreadPtrToken) POOL(MessageToken) POOL(AttributeToken)
#define VERIF_NEW(T) ({ __CPROVER_havoc_object(&pool_##T); &pool_##T; })
#define POOLS pool_LiteralToken, pool_TypeToken, pool_LineToken, pool_FileToken, pool_ShortFileToken, pool_FunctionToken, pool_CategoryToken, pool_TimeToken, \
  pool_ThreadIdToken, pool_QThreadPtrToken, pool_MessageToken, pool_AttributeToken

/* virtual dispatch on "any token": the union of what the concrete tokens guarantee (each proved in contracts/C14/tokens.spec.c) */
BOOL Token_checkCondition(Token *self, LogMessage *lmsg)
__CPROVER_requires(self == &g_tok)
__CPROVER_assigns()
__CPROVER_ensures(IS_BOOL(__CPROVER_return_value));
/* estimatedLength(): a literal's size, a format width, or a small constant */
unsigned long Token_estimatedLength(Token *self)
__CPROVER_requires(self == &g_tok)
__CPROVER_assigns()
__CPROVER_ensures(__CPROVER_return_value <= 0x7fffffffUL);
void Token_appendToString(Token *self, LogMessage *lmsg, QString *dest)
__CPROVER_requires(self == &g_tok && QSTRING_VALID(*dest))
__CPROVER_assigns(*dest)
__CPROVER_ensures(QSTRING_VALID(*dest));

void PatternFormatter_PatternFormatterPrivate_parsePattern(PatternFormatter_PatternFormatterPrivate *self)
__CPROVER_requires(__CPROVER_is_fresh(self, sizeof(*self)) && QSTRING_VALID(self->m_pattern) && self->m_tokens.n >= 0)
__CPROVER_assigns(self->m_tokens, POOLS)
__CPROVER_ensures(self->m_tokens.n >= 0);
#if defined(LOOPKIND_PatternFormatter_PatternFormatterPrivate_parsePattern_0_while) && defined(HASVAR_PatternFormatter_PatternFormatterPrivate_parsePattern_literalText)
#define LOOP_PatternFormatter_PatternFormatterPrivate_parsePattern_0 \
  __CPROVER_assigns(pos, literalText, currentCondition, hasCondition, self->m_tokens, POOLS) \
  __CPROVER_loop_invariant(0 <= pos && pos <= self->m_pattern.len && QSTRING_VALID(literalText) && IS_BOOL(hasCondition) && QTMSGTYPE_VALID(currentCondition) && self->m_tokens.n >= 0) \
  __CPROVER_decreases(self->m_pattern.len - pos)
#endif

QString PatternFormatter_PatternFormatterPrivate_format(PatternFormatter_PatternFormatterPrivate *self, LogMessage *lmsg)
__CPROVER_requires(__CPROVER_is_fresh(self, sizeof(*self)) && self->m_tokens.n >= 0 && __CPROVER_is_fresh(lmsg, sizeof(*lmsg)) && LMSG_OK(lmsg))
__CPROVER_assigns()
__CPROVER_ensures(QSTRING_VALID(__CPROVER_return_value));
#if defined(LOOPKIND_PatternFormatter_PatternFormatterPrivate_format_0_range_for) && defined(LOOPKIND_PatternFormatter_PatternFormatterPrivate_format_1_range_for)
#define LOOP_PatternFormatter_PatternFormatterPrivate_format_0 \
  __CPROVER_loop_invariant(0 <= __begin2.i && __begin2.i <= __end2.i && __end2.i == self->m_tokens.n && __begin2.n == __end2.i && estimatedLength <= ((unsigned long)__begin2.i << 31)) \
  __CPROVER_decreases(__end2.i - __begin2.i)
#define LOOP_PatternFormatter_PatternFormatterPrivate_format_1 \
  __CPROVER_assigns(__begin2, result) \
  __CPROVER_loop_invariant(0 <= __begin2.i && __begin2.i <= __end2.i && __end2.i == self->m_tokens.n && __begin2.n == __end2.i && QSTRING_VALID(result)) \
  __CPROVER_decreases(__end2.i - __begin2.i)
#endif
