// C02 -- concurrent logging: exactly-once, mutual exclusion, order -- as sequential LOCK DISCIPLINE (DESIGN 3, C02)
//@ tus logger.cpp verif:ownthread_inst.cpp
//@ lower Logger::processMessage Logger::messageHandler Logger::~Logger Logger::mutex
//@ lower OwnThreadHandler<SimplePipeline>::process
//@ structs OwnThreadHandler<SimplePipeline>::Worker OwnThreadHandler<SimplePipeline>::LogEvent
//@ enforce Logger_processMessage
//@ enforce Logger_messageHandler
//@ enforce Logger_dtor
//@ enforce OwnThreadHandler_SimplePipeline_process
#define PROP_C02 1
#include "contracts/thread_part1.h"
//@ ---
#include "contracts/thread_common.h"
static inline steady_time_point std_chrono_steady_clock_now(void) { steady_time_point t; t.ticks = nondet_int(); return t; }
static inline QDateTime QDateTime_currentDateTime(void) { QDateTime t; t.valid = 1; t.msecs = nondet_int(); t.jd = nondet_int(); return t; }
BOOL OwnThreadHandler_SimplePipeline_ownThreadIsRunning(OTH *self) __CPROVER_assigns() __CPROVER_ensures(IS_BOOL(__CPROVER_return_value));
unsigned long long g_flushes;
void SimplePipeline_flush(SimplePipeline *self) __CPROVER_assigns(g_flushes) __CPROVER_ensures(g_flushes == __CPROVER_old(g_flushes) + 1);

/* Logger::processMessage (synchronous logger): builds ONE LogMessage from exactly its three arguments and hands it to process() -- hence
 * to the pipeline -- exactly ONCE, on every path; the logger's recursive mutex is released as often as it was taken. (Exclusion itself is
 * the own-mutex clause of process(), which also covers a bare own-thread-capable pipeline.) */
void Logger_processMessage(Logger *self, QtMsgType type, QMessageLogContext context, QString message)
__CPROVER_requires(__CPROVER_is_fresh(self, sizeof(*self)) && QTMSGTYPE_VALID(type) && self->m_mutex.depth >= 0 && self->m_mutex.depth < 1000)
__CPROVER_requires(OWN_DEPTH(&self->_base) == 0 && PENDING(&self->_base) >= 0 && PENDING(&self->_base) < 2147483647 && self->_base.m_worker == NULL && g_buf_ids >= 0 && g_buf_ids < 1000000)
__CPROVER_requires(CSTR_VALID(context.file) && CSTR_VALID(context.function) && CSTR_VALID(context.category) && QSTRING_VALID(message))
__CPROVER_assigns(self->m_mutex.depth, OWN_DEPTH(&self->_base), PENDING(&self->_base), g_runs, g_run_msg, g_run_on, g_run_own_depth, g_run_pending, g_run_type, g_run_text, g_run_line, g_run_file, \
                  g_posts, g_post_receiver, g_post_event, g_post_priority, g_flushes, g_seen_valid, g_buf_ids)
__CPROVER_ensures(self->m_mutex.depth == __CPROVER_old(self->m_mutex.depth) && OWN_DEPTH(&self->_base) == 0)
__CPROVER_ensures(g_runs == __CPROVER_old(g_runs) + 1 && g_run_own_depth == 1)
__CPROVER_ensures(g_run_type == type && QSTRING_SAME(g_run_text, message) && g_run_text.id == message.id && g_run_line == context.line && SAME_CSTR_TEXT(context.file, g_run_file));

/* messageHandler: forwards to the published logger, if any, with the same arguments (so, by processMessage's contract: one pipeline run) */
#define LOGGER_READY(l) ((l)->m_mutex.depth >= 0 && (l)->m_mutex.depth < 1000 && OWN_DEPTH(&(l)->_base) == 0 && PENDING(&(l)->_base) >= 0 && PENDING(&(l)->_base) < 2147483647 && (l)->_base.m_worker == NULL && g_buf_ids >= 0 && g_buf_ids < 1000000)
void Logger_messageHandler(QtMsgType type, QMessageLogContext context, QString message)
__CPROVER_requires(g_activeLogger._base.p == NULL || (__CPROVER_is_fresh(g_activeLogger._base.p, sizeof(Logger)) && LOGGER_READY(g_activeLogger._base.p)))
__CPROVER_requires(QTMSGTYPE_VALID(type) && CSTR_VALID(context.file) && CSTR_VALID(context.function) && CSTR_VALID(context.category) && QSTRING_VALID(message))
__CPROVER_assigns(g_activeLogger._base.p != NULL: g_activeLogger._base.p->m_mutex.depth, g_activeLogger._base.p->_base.m_mutex._base.depth, g_activeLogger._base.p->_base.m_pendingCount._base._base.v; g_runs, g_run_msg, g_run_on, g_run_own_depth, g_run_pending, g_run_type, g_run_text, g_run_line, g_run_file, \
                  g_posts, g_post_receiver, g_post_event, g_post_priority, g_flushes, g_seen_valid, g_buf_ids)
__CPROVER_ensures(g_activeLogger._base.p == NULL ==> g_runs == __CPROVER_old(g_runs))
__CPROVER_ensures(g_activeLogger._base.p != NULL ==> (g_runs == __CPROVER_old(g_runs) + 1 && g_run_type == type && g_run_text.id == message.id && g_run_line == context.line));

/* ~Logger: un-publishes this logger, and only this one */
void Logger_dtor(Logger *self)
__CPROVER_requires(__CPROVER_is_fresh(self, sizeof(*self)))
__CPROVER_assigns(g_activeLogger._base.p)
__CPROVER_ensures(__CPROVER_old(g_activeLogger._base.p) == self ==> g_activeLogger._base.p == NULL)
__CPROVER_ensures(__CPROVER_old(g_activeLogger._base.p) != self ==> g_activeLogger._base.p == __CPROVER_old(g_activeLogger._base.p));
