// C01 -- Pipeline evaluation follows the sequential handler semantics (DESIGN 3, C01)
//@ tus pipeline.cpp
//@ lower Pipeline::process LogMessage::isFormatted LogMessage::formattedMessage LogMessage::attributes
//@ lower LogMessage::setFormattedMessage LogMessage::setAttributes
//@ enforce Pipeline_process
//@ enforce LogMessage_formattedMessage
//@ enforce LogMessage_isFormatted
//@ enforce LogMessage_setFormattedMessage
//@ enforce LogMessage_setAttributes
//@ enforce LogMessage_attributes
//@ lemma lemma_pipeline_refines_handler
#include "models/ident.h"

/* ---- abstract QList<HandlerPtr>: length only; elements are observed through the ghost cell ---- */
typedef struct { Handler *p; } QSharedPointer_Handler;
typedef struct { int n; } QList_QSharedPointer_Handler;
typedef struct { QList_QSharedPointer_Handler *l; int i; } QList_QSharedPointer_Handler_iterator;
static inline QList_QSharedPointer_Handler_iterator QList_QSharedPointer_Handler_begin(QList_QSharedPointer_Handler *l)
{ QList_QSharedPointer_Handler_iterator it; it.l = l; it.i = 0; return it; }
static inline QList_QSharedPointer_Handler_iterator QList_QSharedPointer_Handler_end(QList_QSharedPointer_Handler *l)
{ QList_QSharedPointer_Handler_iterator it; it.l = l; it.i = l->n; return it; }
static inline BOOL QList_QSharedPointer_Handler_iterator_op_ne__QList_QSharedPointer_Handler_iterator(
    QList_QSharedPointer_Handler_iterator a, QList_QSharedPointer_Handler_iterator b) { return a.i != b.i; }
static inline QList_QSharedPointer_Handler_iterator *QList_QSharedPointer_Handler_iterator_op_inc(QList_QSharedPointer_Handler_iterator *a)
{ a->i++; return a; }
static inline BOOL QSharedPointer_Handler_op_not(QSharedPointer_Handler h) { return h.p == NULL; }
static inline Handler *QSharedPointer_Handler_op_arrow(QSharedPointer_Handler h) { return h.p; }

/* ---- ghost state of one pipeline run ---- */
int g_at_index;           /* index of the element fetched last                     */
Handler *g_at_value;      /* ... and its handler                                   */
int g_last_idx;           /* index of the handler executed last (-1: none yet)     */
int g_rejected;           /* a handler returned false                              */
int g_reject_idx;         /* ... at this index                                     */
int g_k;                  /* arbitrary fixed index (stands for "every k")          */
int g_called_k;           /* handler k has been executed                           */
unsigned long long g_calls_k; /* ... this many times                                   */
Handler *g_elem_k;        /* element k of the list                                 */
QString g_fm; QVariantHash g_attrs;   /* message state left by the previous handler */
QSharedPointer_Handler g_cell;

#define SAME_STATE(m) (QSTRING_SAME((m)->m_formattedMessage, g_fm) && (m)->m_attributes.id == g_attrs.id)
#define LM_VALID(m) (QSTRING_VALID((m)->m_formattedMessage) && QSTRING_VALID((m)->m_message))

/* element access: dereferencing end() or beyond is undefined behaviour */
QSharedPointer_Handler *QList_QSharedPointer_Handler_iterator_op_deref(QList_QSharedPointer_Handler_iterator it)
__CPROVER_requires(0 <= it.i && it.i < it.l->n)
__CPROVER_assigns(g_at_index, g_at_value, g_cell)
__CPROVER_ensures(g_at_index == it.i && g_at_value == g_cell.p && __CPROVER_return_value == &g_cell)
__CPROVER_ensures(it.i == g_k ==> g_cell.p == g_elem_k);
//@ ---

/* ---- interface contract "any handler" (virtual Handler::process) ---- */
BOOL Handler_process(Handler *self, LogMessage *lmsg)
__CPROVER_requires(self != NULL && self == g_at_value)            /* called on the element just fetched       */
__CPROVER_requires(g_at_index > g_last_idx)                       /* in order, each at most once              */
__CPROVER_requires(!g_rejected)                                   /* nothing runs after a rejection           */
__CPROVER_requires(SAME_STATE(lmsg))                              /* pipeline changed nothing in between      */
__CPROVER_assigns(lmsg->m_formattedMessage, lmsg->m_attributes, g_last_idx, g_rejected, g_reject_idx, g_called_k, g_calls_k, g_fm, g_attrs)
__CPROVER_ensures(IS_BOOL(__CPROVER_return_value))
__CPROVER_ensures(g_last_idx == g_at_index)
__CPROVER_ensures(IS_BOOL(g_rejected) && g_rejected == !__CPROVER_return_value)
__CPROVER_ensures(g_rejected ==> g_reject_idx == g_at_index)
__CPROVER_ensures(IS_BOOL(g_called_k) && g_called_k == (__CPROVER_old(g_called_k) || g_at_index == g_k))
__CPROVER_ensures(g_calls_k == __CPROVER_old(g_calls_k) + (g_at_index == g_k ? 1 : 0))
__CPROVER_ensures(SAME_STATE(lmsg) && LM_VALID(lmsg));

/* ---- the property, transcribed: Pipeline::process ---- */
BOOL Pipeline_process(Pipeline *self, LogMessage *lmsg)
__CPROVER_requires(__CPROVER_is_fresh(self, sizeof(*self)) && __CPROVER_is_fresh(lmsg, sizeof(*lmsg)))
__CPROVER_requires(0 <= self->m_handlers.n && IS_BOOL(self->m_scoped) && LM_VALID(lmsg))
__CPROVER_requires(g_last_idx == -1 && !g_rejected && !g_called_k && g_calls_k == 0 && 0 <= g_k && SAME_STATE(lmsg))
__CPROVER_assigns(lmsg->m_formattedMessage, lmsg->m_attributes, g_last_idx, g_rejected, g_reject_idx, g_called_k, g_calls_k, g_fm, g_attrs, g_at_index, g_at_value, g_cell)
/* (1) a nested pipeline never stops its parent */
__CPROVER_ensures(__CPROVER_return_value == 1)
/* (2) scoped: formatted text (null-ness and content) and attributes are as at entry */
__CPROVER_ensures(self->m_scoped ==> (QSTRING_SAME(lmsg->m_formattedMessage, __CPROVER_old(lmsg->m_formattedMessage))
                                      && lmsg->m_attributes.id == __CPROVER_old(lmsg->m_attributes.id)))
/* (3) unscoped: what the last executed handler left persists */
__CPROVER_ensures(!self->m_scoped ==> SAME_STATE(lmsg))
/* (4) every non-null handler k with no rejection before it was executed, exactly once, (in order: Handler_process requires) */
__CPROVER_ensures((g_k < self->m_handlers.n && g_elem_k != NULL && !(g_rejected && g_reject_idx < g_k)) ==> (g_called_k && g_calls_k == 1))
/* (5) a handler after a rejecting one is not executed */
__CPROVER_ensures((g_rejected && g_reject_idx < g_k) ==> g_calls_k == 0)
__CPROVER_ensures(LM_VALID(lmsg));

#define LOOP_Pipeline_process_0 \
  __CPROVER_assigns(__begin1.i, lmsg->m_formattedMessage, lmsg->m_attributes, g_last_idx, g_rejected, g_reject_idx, g_called_k, g_calls_k, g_fm, g_attrs, g_at_index, g_at_value, g_cell) \
  __CPROVER_loop_invariant(0 <= __begin1.i && __begin1.i <= __end1.i && __end1.i == self->m_handlers.n && __begin1.l == &self->m_handlers) \
  __CPROVER_loop_invariant(g_last_idx < __begin1.i && !g_rejected && LM_VALID(lmsg) && SAME_STATE(lmsg)) \
  __CPROVER_loop_invariant(IS_BOOL(g_called_k) && ((__begin1.i > g_k && g_elem_k != NULL) ==> (g_called_k && g_calls_k == 1))) \
  __CPROVER_loop_invariant(__begin1.i <= g_k ==> g_calls_k == 0) \
  __CPROVER_loop_invariant(g_calls_k == 0 || g_calls_k == 1) \
  __CPROVER_decreases(__end1.i - __begin1.i)

/* ---- LogMessage accessors ---- */
BOOL LogMessage_isFormatted(LogMessage *self)
__CPROVER_requires(__CPROVER_is_fresh(self, sizeof(*self)) && LM_VALID(self))
__CPROVER_assigns()
__CPROVER_ensures(__CPROVER_return_value == !self->m_formattedMessage.isnull);

/* a sink gets the latest formatted text, or the raw message when nothing formatted it */
QString LogMessage_formattedMessage(LogMessage *self)
__CPROVER_requires(__CPROVER_is_fresh(self, sizeof(*self)) && LM_VALID(self))
__CPROVER_assigns()
__CPROVER_ensures(!self->m_formattedMessage.isnull ==> QSTRING_SAME(__CPROVER_return_value, self->m_formattedMessage))
__CPROVER_ensures(self->m_formattedMessage.isnull ==> QSTRING_SAME(__CPROVER_return_value, self->m_message));

void LogMessage_setFormattedMessage(LogMessage *self, QString formattedMessage)
__CPROVER_requires(__CPROVER_is_fresh(self, sizeof(*self)))
__CPROVER_assigns(self->m_formattedMessage)
__CPROVER_ensures(QSTRING_SAME(self->m_formattedMessage, formattedMessage) && self->m_formattedMessage.id == formattedMessage.id);

void LogMessage_setAttributes(LogMessage *self, QVariantHash attrs)
__CPROVER_requires(__CPROVER_is_fresh(self, sizeof(*self)))
__CPROVER_assigns(self->m_attributes)
__CPROVER_ensures(self->m_attributes.id == attrs.id);

QVariantHash LogMessage_attributes(LogMessage *self)
__CPROVER_requires(__CPROVER_is_fresh(self, sizeof(*self)))
__CPROVER_assigns()
__CPROVER_ensures(__CPROVER_return_value.id == self->m_attributes.id);

/* ---- contract refinement: a (nested) pipeline is "any handler" for its parent ----
 * The parent assumes of Handler_process: it changes at most the formatted text and the attributes of
 * the message (frame), returns a verdict, keeps the message well-formed. Pipeline_process's contract
 * (used here through contract replacement, for an arbitrary well-formed pipeline incl. the empty one)
 * implies exactly that; so the proof of Pipeline_process, which treats each element as "any handler",
 * covers nested pipelines of every depth by induction on the depth. */
void lemma_pipeline_refines_handler(void)
{
    Pipeline p; LogMessage m;
    LEMMA_REQUIRES(0 <= p.m_handlers.n && IS_BOOL(p.m_scoped) && LM_VALID(&m));
    LEMMA_REQUIRES(0 <= g_k);
    g_last_idx = -1; g_rejected = 0; g_called_k = 0; g_calls_k = 0;
    g_fm = m.m_formattedMessage; g_attrs = m.m_attributes;
    LogMessage before = m;
    BOOL r = Pipeline_process(&p, &m);
    __CPROVER_assert(r == 0 || r == 1, "nested pipeline returns a verdict");
    __CPROVER_assert(r == 1, "nested pipeline never stops its parent");
    __CPROVER_assert(LM_VALID(&m), "message stays well-formed");
    __CPROVER_assert(QSTRING_SAME(m.m_message, before.m_message) && m.m_message.id == before.m_message.id && m.m_type == before.m_type
                     && m.m_context.line == before.m_context.line && m.m_time.msecs == before.m_time.msecs
                     && m.m_qthreadptr == before.m_qthreadptr, "frame: only formatted text and attributes may change");
    LEMMA_END;
}
