// C01 -- per-kind process() adapters and SimplePipeline::pipeline()/end() (DESIGN 3, C01)
//@ tus simplepipeline.cpp pipeline.cpp
//@ lower AttrHandler::process Filter::process Formatter::process Sink::process FunctionHandler::process
//@ lower LogMessage::updateAttributes LogMessage::setFormattedMessage
//@ lower SimplePipeline::pipeline SimplePipeline::end Pipeline::append#QSharedPointer_Handler
//@ enforce AttrHandler_process
//@ enforce Filter_process
//@ enforce Formatter_process
//@ enforce Sink_process
//@ enforce FunctionHandler_process
//@ enforce LogMessage_updateAttributes
//@ enforce SimplePipeline_pipeline
//@ enforce SimplePipeline_end
//@ enforce Pipeline_append__QSharedPointer_Handler
#include "models/ident.h"


typedef struct { int id; } std_function_boolLogMessageR;
typedef struct { Handler *p; } QSharedPointer_Handler;
typedef struct { SimplePipeline *p; } QSharedPointer_SimplePipeline;

/* abstract list with one ghost-observed slot: the element appended last */
typedef struct { int n; } QList_QSharedPointer_Handler;
unsigned long long g_append_calls; Handler *g_appended; int g_appended_at;
void QList_QSharedPointer_Handler_append__QSharedPointer_Handler(QList_QSharedPointer_Handler *self, QSharedPointer_Handler h)
__CPROVER_requires(self->n >= 0 && self->n < 2147483647)
__CPROVER_assigns(self->n, g_append_calls, g_appended, g_appended_at)
__CPROVER_ensures(self->n == __CPROVER_old(self->n) + 1 && g_appended_at == __CPROVER_old(self->n))
__CPROVER_ensures(g_append_calls == __CPROVER_old(g_append_calls) + 1 && g_appended == h.p);
static inline BOOL QSharedPointer_Handler_isNull(QSharedPointer_Handler h) { return h.p == NULL; }

/* QSharedPointer<SimplePipeline>::create(scoped, parent): a new object constructed with exactly these arguments */
SimplePipeline g_new_pipeline; unsigned long long g_create_calls;
//@ ---
QSharedPointer_SimplePipeline QSharedPointer_SimplePipeline_create__BOOL_SimplePipelineP(BOOL scoped, SimplePipeline *parent)
__CPROVER_assigns(g_new_pipeline, g_create_calls)
__CPROVER_ensures(__CPROVER_return_value.p == &g_new_pipeline && g_create_calls == __CPROVER_old(g_create_calls) + 1)
__CPROVER_ensures(g_new_pipeline._base._base.m_scoped == scoped && g_new_pipeline.m_parent == parent && g_new_pipeline._base._base.m_handlers.n == 0);
static inline SimplePipeline *QSharedPointer_SimplePipeline_data(QSharedPointer_SimplePipeline p) { return p.p; }
/* upcast QSharedPointer<SimplePipeline> -> QSharedPointer<Handler>: same object */
static inline QSharedPointer_Handler QSharedPointer_Handler_ctor__QSharedPointer_SimplePipeline(QSharedPointer_SimplePipeline p)
{ QSharedPointer_Handler h; h.p = p.p ? &p.p->_base._base._base : NULL; return h; }

#define LM_VALID(m) (QSTRING_VALID((m)->m_formattedMessage) && QSTRING_VALID((m)->m_message))
#define LM_UNCHANGED_EXCEPT_FM_ATTRS(m, o) (QSTRING_SAME((m)->m_message, (o).m_message) && (m)->m_message.id == (o).m_message.id && (m)->m_type == (o).m_type)

/* ---- interfaces: "any attribute handler / filter / formatter / sink / function" ---- */
unsigned long long g_calls;  /* number of calls of the wrapped virtual function */
QString g_seen_fm; QVariantHash g_seen_attrs;      /* message state the callee observed */
QVariantHash g_attr_result; QString g_format_result; BOOL g_verdict;

QVariantHash AttrHandler_attributes(AttrHandler *self, LogMessage *lmsg)
__CPROVER_assigns(g_calls, g_seen_fm, g_seen_attrs, g_attr_result)
__CPROVER_ensures(g_calls == __CPROVER_old(g_calls) + 1 && g_attr_result.id == __CPROVER_return_value.id)
__CPROVER_ensures(g_seen_fm.id == lmsg->m_formattedMessage.id && g_seen_fm.isnull == lmsg->m_formattedMessage.isnull && g_seen_attrs.id == lmsg->m_attributes.id);

BOOL Filter_filter(Filter *self, LogMessage *lmsg)
__CPROVER_assigns(g_calls, g_seen_fm, g_seen_attrs, g_verdict)
__CPROVER_ensures(g_calls == __CPROVER_old(g_calls) + 1 && IS_BOOL(__CPROVER_return_value) && g_verdict == __CPROVER_return_value)
__CPROVER_ensures(g_seen_fm.id == lmsg->m_formattedMessage.id && g_seen_fm.isnull == lmsg->m_formattedMessage.isnull && g_seen_attrs.id == lmsg->m_attributes.id);

QString Formatter_format(Formatter *self, LogMessage *lmsg)
__CPROVER_assigns(g_calls, g_seen_fm, g_seen_attrs, g_format_result)
__CPROVER_ensures(g_calls == __CPROVER_old(g_calls) + 1 && QSTRING_VALID(__CPROVER_return_value))
__CPROVER_ensures(QSTRING_SAME(g_format_result, __CPROVER_return_value) && g_format_result.id == __CPROVER_return_value.id)
__CPROVER_ensures(g_seen_fm.id == lmsg->m_formattedMessage.id && g_seen_fm.isnull == lmsg->m_formattedMessage.isnull && g_seen_attrs.id == lmsg->m_attributes.id);

void Sink_send(Sink *self, LogMessage *lmsg)
__CPROVER_assigns(g_calls, g_seen_fm, g_seen_attrs)
__CPROVER_ensures(g_calls == __CPROVER_old(g_calls) + 1)
__CPROVER_ensures(g_seen_fm.id == lmsg->m_formattedMessage.id && g_seen_fm.isnull == lmsg->m_formattedMessage.isnull && g_seen_attrs.id == lmsg->m_attributes.id);

BOOL std_function_boolLogMessageR_op_call__LogMessage(std_function_boolLogMessageR f, LogMessage *lmsg)
__CPROVER_assigns(g_calls, g_verdict, lmsg->m_formattedMessage, lmsg->m_attributes)
__CPROVER_ensures(g_calls == __CPROVER_old(g_calls) + 1 && IS_BOOL(__CPROVER_return_value) && g_verdict == __CPROVER_return_value);

/* ---- adapters, from the property statement ---- */
/* AttrHandler merges and lets the message continue */
BOOL AttrHandler_process(AttrHandler *self, LogMessage *lmsg)
__CPROVER_requires(__CPROVER_is_fresh(self, sizeof(*self)) && __CPROVER_is_fresh(lmsg, sizeof(*lmsg)) && LM_VALID(lmsg) && g_calls == 0)
__CPROVER_assigns(lmsg->m_attributes, g_calls, g_seen_fm, g_seen_attrs, g_attr_result)
__CPROVER_ensures(__CPROVER_return_value == 1 && g_calls == 1)
__CPROVER_ensures(g_seen_attrs.id == __CPROVER_old(lmsg->m_attributes.id))
__CPROVER_ensures(lmsg->m_attributes.id == __CPROVER_uninterpreted_hash_merge(__CPROVER_old(lmsg->m_attributes.id), g_attr_result.id));

/* Filter returns the verdict, changes nothing */
BOOL Filter_process(Filter *self, LogMessage *lmsg)
__CPROVER_requires(__CPROVER_is_fresh(self, sizeof(*self)) && __CPROVER_is_fresh(lmsg, sizeof(*lmsg)) && LM_VALID(lmsg) && g_calls == 0)
__CPROVER_assigns(g_calls, g_seen_fm, g_seen_attrs, g_verdict)
__CPROVER_ensures(__CPROVER_return_value == g_verdict && g_calls == 1);

/* Formatter sets the formatted text to format()'s result and lets the message continue */
BOOL Formatter_process(Formatter *self, LogMessage *lmsg)
__CPROVER_requires(__CPROVER_is_fresh(self, sizeof(*self)) && __CPROVER_is_fresh(lmsg, sizeof(*lmsg)) && LM_VALID(lmsg) && g_calls == 0)
__CPROVER_assigns(lmsg->m_formattedMessage, g_calls, g_seen_fm, g_seen_attrs, g_format_result)
__CPROVER_ensures(__CPROVER_return_value == 1 && g_calls == 1)
__CPROVER_ensures(QSTRING_SAME(lmsg->m_formattedMessage, g_format_result) && lmsg->m_formattedMessage.id == g_format_result.id);

/* Sink sends exactly once, the message as it is, and continues */
BOOL Sink_process(Sink *self, LogMessage *lmsg)
__CPROVER_requires(__CPROVER_is_fresh(self, sizeof(*self)) && __CPROVER_is_fresh(lmsg, sizeof(*lmsg)) && LM_VALID(lmsg) && g_calls == 0)
__CPROVER_assigns(g_calls, g_seen_fm, g_seen_attrs)
__CPROVER_ensures(__CPROVER_return_value == 1 && g_calls == 1)
__CPROVER_ensures(g_seen_fm.id == lmsg->m_formattedMessage.id && g_seen_fm.isnull == lmsg->m_formattedMessage.isnull && g_seen_attrs.id == lmsg->m_attributes.id);

BOOL FunctionHandler_process(FunctionHandler *self, LogMessage *lmsg)
__CPROVER_requires(__CPROVER_is_fresh(self, sizeof(*self)) && __CPROVER_is_fresh(lmsg, sizeof(*lmsg)) && g_calls == 0)
__CPROVER_assigns(g_calls, g_verdict, lmsg->m_formattedMessage, lmsg->m_attributes)
__CPROVER_ensures(__CPROVER_return_value == g_verdict && g_calls == 1);

void LogMessage_updateAttributes(LogMessage *self, QVariantHash attrs)
__CPROVER_requires(__CPROVER_is_fresh(self, sizeof(*self)))
__CPROVER_assigns(self->m_attributes)
__CPROVER_ensures(self->m_attributes.id == __CPROVER_uninterpreted_hash_merge(__CPROVER_old(self->m_attributes.id), attrs.id));

void LogMessage_setFormattedMessage(LogMessage *self, QString formattedMessage)
__CPROVER_requires(__CPROVER_is_fresh(self, sizeof(*self)))
__CPROVER_assigns(self->m_formattedMessage)
__CPROVER_ensures(QSTRING_SAME(self->m_formattedMessage, formattedMessage) && self->m_formattedMessage.id == formattedMessage.id);

/* null handlers are never stored by append(handler) */
void Pipeline_append__QSharedPointer_Handler(Pipeline *self, QSharedPointer_Handler handler)
__CPROVER_requires(__CPROVER_is_fresh(self, sizeof(*self)) && self->m_handlers.n >= 0 && self->m_handlers.n < 2147483647)
__CPROVER_assigns(self->m_handlers.n, g_append_calls, g_appended, g_appended_at)
__CPROVER_ensures(handler.p == NULL ==> (self->m_handlers.n == __CPROVER_old(self->m_handlers.n) && g_append_calls == __CPROVER_old(g_append_calls)))
__CPROVER_ensures(handler.p != NULL ==> (self->m_handlers.n == __CPROVER_old(self->m_handlers.n) + 1 && g_append_calls == __CPROVER_old(g_append_calls) + 1
                                        && g_appended == handler.p && g_appended_at == __CPROVER_old(self->m_handlers.n)));

/* pipeline(): appends (at the end) a new SCOPED child whose parent is this pipeline, and returns the child */
SimplePipeline *SimplePipeline_pipeline(SimplePipeline *self)
__CPROVER_requires(__CPROVER_is_fresh(self, sizeof(*self)) && self->_base._base.m_handlers.n >= 0 && self->_base._base.m_handlers.n < 2147483647)
__CPROVER_requires(g_append_calls == 0 && g_create_calls == 0)
__CPROVER_assigns(self->_base._base.m_handlers.n, g_append_calls, g_appended, g_appended_at, g_new_pipeline, g_create_calls)
__CPROVER_ensures(__CPROVER_return_value == &g_new_pipeline && g_create_calls == 1)
__CPROVER_ensures(g_new_pipeline._base._base.m_scoped == 1 && g_new_pipeline.m_parent == self)
__CPROVER_ensures(g_append_calls == 1 && g_appended == &g_new_pipeline._base._base._base && g_appended_at == __CPROVER_old(self->_base._base.m_handlers.n))
__CPROVER_ensures(self->_base._base.m_handlers.n == __CPROVER_old(self->_base._base.m_handlers.n) + 1);

/* end(): back to the parent; on a root: itself */
SimplePipeline *SimplePipeline_end(SimplePipeline *self)
__CPROVER_requires(__CPROVER_is_fresh(self, sizeof(*self)))
__CPROVER_assigns()
__CPROVER_ensures(self->m_parent != NULL ==> __CPROVER_return_value == self->m_parent)
__CPROVER_ensures(self->m_parent == NULL ==> __CPROVER_return_value == self);
