// C06 -- retention bounds the file count and deletes only the oldest rotated files (DESIGN 3, C06)
//@ tus sinks/rotatingfilesink.cpp sinks/filesink.cpp sinks/iodevicesink.cpp
//@ lower RotatingFileSink::send RotatingFileSink::RotatingFileSinkPrivate::init RotatingFileSink::RotatingFileSinkPrivate::rotateIfNeeded
//@ lower RotatingFileSink::RotatingFileSinkPrivate::rotate RotatingFileSink::RotatingFileSinkPrivate::removeOldFiles RotatingFileSink::RotatingFileSinkPrivate::findRotatedFiles
//@ lower RotatingFileSink::RotatingFileSinkPrivate::findNextIndexForDate RotatingFileSink::RotatingFileSinkPrivate::generateRotatedFileName
//@ lower RotatingFileSink::RotatingFileSinkPrivate::checkSizeRotation RotatingFileSink::RotatingFileSinkPrivate::checkDailyRotation RotatingFileSink::RotatingFileSinkPrivate::checkStartupRotation
//@ lower RotatingFileSink::RotatingFileSinkPrivate::baseDir IODeviceSink::send FileSink::file IODeviceSink::device LogMessage::formattedMessage LogMessage::time LogMessage::isFormatted
//@ enforce RotatingFileSink_send timeout=900
//@ enforce RotatingFileSink_RotatingFileSinkPrivate_rotate timeout=900
//@ enforce RotatingFileSink_RotatingFileSinkPrivate_findRotatedFiles
//@ enforce RotatingFileSink_RotatingFileSinkPrivate_removeOldFiles
#define PROP_C06 1
#include "contracts/fs_part1.h"
//@ ---
#include "contracts/fs_common.h"
#include "contracts/fs_msg.h"

/* With N >= 2: after every write at most N log files exist; files are removed oldest first (obligation of the remove model, which
 * needs the list of findRotatedFiles() to be ordered by rotation order: comparator_total); N <= 0: nothing is ever deleted; N == 1: no
 * rotated file is ever produced; only names of this sink's scheme are renamed to / removed (g_foreign_touched).
 * Stated assumptions: no I/O failure (C10: a failed remove leaves one file more). */
void RotatingFileSink_send(RotatingFileSink *self, LogMessage *lmsg)
__CPROVER_requires(SINK_OK(self) && PRIV_FLAGS(self->d.p) && __CPROVER_is_fresh(lmsg, sizeof(*lmsg)) && MSG_TIED(lmsg) && LEDGER_OK() && LEDGER_RANGE())
__CPROVER_requires(g_L == self->d.p->m_maxFileSize && g_open == 1 && g_A_exists == 1 && g_gz_exists == 0 && IS_BOOL(g_clock_frozen))
__CPROVER_requires(self->d.p->m_maxFileCount >= 2 ==> g_R_count <= self->d.p->m_maxFileCount - 1)       /* the bound held after the previous write */
__CPROVER_assigns(LEDGER_GHOSTS, PRIV_STATE(self->d.p))
__CPROVER_ensures(LEDGER_OK() && g_gz_exists == 0)
__CPROVER_ensures(self->d.p->m_maxFileCount >= 2 ==> 1 + g_R_count <= self->d.p->m_maxFileCount)
__CPROVER_ensures(self->d.p->m_maxFileCount <= 0 ==> g_removes == __CPROVER_old(g_removes))
__CPROVER_ensures(self->d.p->m_maxFileCount == 1 ==> (g_renames_ok == __CPROVER_old(g_renames_ok) && g_R_count == __CPROVER_old(g_R_count) && g_removes == __CPROVER_old(g_removes)))
__CPROVER_ensures(g_foreign_touched == __CPROVER_old(g_foreign_touched));
