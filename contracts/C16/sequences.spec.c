// C16 -- sequence-level statements over the REAL BODIES (representation independent: no private field is named,
//        so a change of the stored state -- e.g. a hash instead of the text -- stays decidable)
//@ tus simplepipeline.cpp filters/duplicatefilter.cpp attrhandlers/seqnumberattr.cpp
//@ lower DuplicateFilter::filter DuplicateFilter::DuplicateFilter#void LogMessage::message
//@ lower SeqNumberAttr::attributes SeqNumberAttr::SeqNumberAttr#QString
//@ lower Filter::Filter#void AttrHandler::AttrHandler#void Handler::Handler#void
//@ lemma lemma_dup_two_steps
//@ lemma lemma_dup_three_steps
//@ lemma lemma_dup_fresh_filter
//@ lemma lemma_seq_consecutive_body
//@ lemma lemma_seq_fresh_then_consecutive
#define VERIF_OWN_QVARIANTHASH_INSERT_KV
#include "models/ident.h"

#include "contracts/C16/hashview.h"

/* regular expressions: the verdict is an uninterpreted function of (pattern identity, subject text) -- axiom A-regex */
typedef struct { int id; } QRegularExpression;
typedef struct { int has; } QRegularExpressionMatch;
BOOL __CPROVER_uninterpreted_regex_matches(int pattern, int text_id, int text_len);
QRegularExpressionMatch QRegularExpression_match__QString(QRegularExpression re, QString subject)
__CPROVER_assigns()
__CPROVER_ensures(IS_BOOL(__CPROVER_return_value.has) && __CPROVER_return_value.has == __CPROVER_uninterpreted_regex_matches(re.id, subject.len == 0 ? 0 : subject.id, subject.len));
static inline BOOL QRegularExpressionMatch_hasMatch(QRegularExpressionMatch m) { return m.has; }

/* further Qt API a changed implementation may reasonably use (all on content identities) */
unsigned __CPROVER_uninterpreted_qhash(int id, int len);
static inline unsigned qHash__QString(QString s) { return __CPROVER_uninterpreted_qhash(s.len == 0 ? 0 : s.id, s.len); }
static inline unsigned qHash__QString_unsignedint(QString s, unsigned seed) { return __CPROVER_uninterpreted_qhash(s.len == 0 ? 0 : s.id, s.len) ^ seed; }
static inline int QString_size(QString s) { return s.len; }
static inline int QString_length(QString s) { return s.len; }
static inline int QString_count(QString s) { return s.len; }
static inline int QString_compare__QString(QString a, QString b) { return QSTRING_EQ(a, b) ? 0 : (a.id < b.id ? -1 : 1); }
BOOL __CPROVER_uninterpreted_lm_hasattr(int attrs, int key);
static inline BOOL QVariantHash_contains_key(QVariantHash h, QString k) { return __CPROVER_uninterpreted_hash_contains(h.id, QSTRING_KEY(k)) != 0; }
//@ ---
#define LM_VALID(m) (QSTRING_VALID((m)->m_message) && QTMSGTYPE_VALID((m)->m_type))

/* from ANY internal state: after seeing m1, m2 is dropped iff text(m2) == text(m1) */
void lemma_dup_two_steps(void)
{
    DuplicateFilter f; LogMessage m1, m2;
    LEMMA_REQUIRES(LM_VALID(&m1) && LM_VALID(&m2));
    BOOL v1 = DuplicateFilter_filter(&f, &m1);
    BOOL v2 = DuplicateFilter_filter(&f, &m2);
    __CPROVER_assert(v2 == !QSTRING_EQ(m2.m_message, m1.m_message), "a message is dropped iff its text equals the text of the message seen immediately before");
    LEMMA_END;
}
/* ... also when the previous message was itself dropped (runs collapse to their first element, alternations all pass) */
void lemma_dup_three_steps(void)
{
    DuplicateFilter f; LogMessage m1, m2, m3;
    LEMMA_REQUIRES(LM_VALID(&m1) && LM_VALID(&m2) && LM_VALID(&m3));
    BOOL v1 = DuplicateFilter_filter(&f, &m1);
    BOOL v2 = DuplicateFilter_filter(&f, &m2);
    BOOL v3 = DuplicateFilter_filter(&f, &m3);
    __CPROVER_assert(v3 == !QSTRING_EQ(m3.m_message, m2.m_message), "third message: dropped iff equal to the second, whether or not the second was dropped");
    LEMMA_END;
}
/* a fresh filter behaves as if it had seen the empty text */
void lemma_dup_fresh_filter(void)
{
    DuplicateFilter f; LogMessage m1;
    LEMMA_REQUIRES(LM_VALID(&m1));
    DuplicateFilter_ctor__void(&f);
    BOOL v1 = DuplicateFilter_filter(&f, &m1);
    __CPROVER_assert(v1 == (m1.m_message.len != 0), "first message of a fresh filter: dropped iff its text is empty");
    LEMMA_END;
}
/* the same two calls through the real BODY (not the one-step contract): consecutive messages get v and v+1 exactly,
 * whichever of pre-/post-increment the code uses */
void lemma_seq_consecutive_body(void)
{
    SeqNumberAttr a; LogMessage m1, m2;
    LEMMA_REQUIRES(a.m_count < 2147483646);
    g_hash_entries = 0;
    SeqNumberAttr_attributes(&a, &m1);
    int n1 = g_hash_int; QString k1 = g_hash_key;
    __CPROVER_assert(g_hash_entries == 1 && g_hash_is_int == 1, "first call: exactly one integer attribute");
    g_hash_entries = 0;
    SeqNumberAttr_attributes(&a, &m2);
    int n2 = g_hash_int;
    __CPROVER_assert(g_hash_entries == 1 && g_hash_is_int == 1, "second call: exactly one integer attribute");
    __CPROVER_assert((long long)n2 == (long long)n1 + 1, "consecutive messages get consecutive numbers");
    __CPROVER_assert(g_hash_key.id == k1.id && g_hash_key.len == k1.len && g_hash_key.id == a.m_name.id, "same attribute name, the handler's");
    LEMMA_END;
}

/* a fresh handler: still consecutive (the property does not fix the first number), whatever the messages carry */
void lemma_seq_fresh_then_consecutive(void)
{
    SeqNumberAttr a; LogMessage m1, m2; QString name;
    LEMMA_REQUIRES(QSTRING_VALID(name));
    SeqNumberAttr_ctor__QString(&a, name);
    g_hash_entries = 0;
    SeqNumberAttr_attributes(&a, &m1);
    int n1 = g_hash_int;
    __CPROVER_assert(g_hash_entries == 1 && g_hash_is_int == 1 && g_hash_key.id == name.id, "first call: exactly one integer attribute under the given name");
    g_hash_entries = 0;
    SeqNumberAttr_attributes(&a, &m2);
    __CPROVER_assert(g_hash_entries == 1 && (long long)g_hash_int == (long long)n1 + 1, "second call: the next number");
    LEMMA_END;
}
