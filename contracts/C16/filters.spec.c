// C16 -- built-in filters and counters follow their decision rules on every sequence (DESIGN 3, C16)
//@ tus simplepipeline.cpp filters/duplicatefilter.cpp attrhandlers/seqnumberattr.cpp filters/regexpfilter.cpp
//@ lower LevelFilter::filter LevelFilter::priority LogMessage::type LogMessage::message
//@ lower DuplicateFilter::filter DuplicateFilter::DuplicateFilter#void
//@ lower SeqNumberAttr::attributes SeqNumberAttr::SeqNumberAttr#QString
//@ lower RegExpFilter::filter Filter::Filter#void AttrHandler::AttrHandler#void Handler::Handler#void
//@ enforce LevelFilter_filter
//@ enforce LevelFilter_priority
//@ enforce DuplicateFilter_filter
//@ enforce DuplicateFilter_ctor__void
//@ enforce SeqNumberAttr_attributes
//@ enforce SeqNumberAttr_ctor__QString
//@ enforce RegExpFilter_filter
//@ enforce LogMessage_message
//@ enforce LogMessage_type
//@ lemma lemma_duplicate_collapses_runs
//@ lemma lemma_duplicate_initial_state
//@ lemma lemma_seq_consecutive
#define VERIF_OWN_QVARIANTHASH_INSERT_KV
#include "models/ident.h"

#include "contracts/C16/hashview.h"

/* regular expressions: the verdict is an uninterpreted function of (pattern identity, subject text) -- axiom A-regex */
typedef struct { int id; } QRegularExpression;
typedef struct { int has; } QRegularExpressionMatch;
BOOL __CPROVER_uninterpreted_regex_matches(int pattern, int text_id, int text_len);
QRegularExpressionMatch QRegularExpression_match__QString(QRegularExpression re, QString subject)
__CPROVER_assigns()
__CPROVER_ensures(IS_BOOL(__CPROVER_return_value.has) && __CPROVER_return_value.has == __CPROVER_uninterpreted_regex_matches(re.id, subject.len == 0 ? 0 : subject.id, subject.len));
static inline BOOL QRegularExpressionMatch_hasMatch(QRegularExpressionMatch m) { return m.has; }
//@ ---

/* the property's severity order: debug < info < warning < critical < fatal (NOT QtMsgType's numeric order) */
#define RANK(t) ((t) == QtDebugMsg ? 0 : (t) == QtInfoMsg ? 1 : (t) == QtWarningMsg ? 2 : (t) == QtCriticalMsg ? 3 : 4)
#define LM_VALID(m) (QSTRING_VALID((m)->m_message) && QTMSGTYPE_VALID((m)->m_type))


QString LogMessage_message(LogMessage *self)
__CPROVER_requires(__CPROVER_is_fresh(self, sizeof(*self)))
__CPROVER_assigns()
__CPROVER_ensures(QSTRING_SAME(__CPROVER_return_value, self->m_message) && __CPROVER_return_value.id == self->m_message.id);

QtMsgType LogMessage_type(LogMessage *self)
__CPROVER_requires(__CPROVER_is_fresh(self, sizeof(*self)))
__CPROVER_assigns()
__CPROVER_ensures(__CPROVER_return_value == self->m_type);

/* ---- level filter: full 5 x 5 domain ---- */
int LevelFilter_priority(QtMsgType type)
__CPROVER_requires(QTMSGTYPE_VALID(type))
__CPROVER_assigns()
__CPROVER_ensures(__CPROVER_return_value == RANK(type));

BOOL LevelFilter_filter(LevelFilter *self, LogMessage *lmsg)
__CPROVER_requires(__CPROVER_is_fresh(self, sizeof(*self)) && __CPROVER_is_fresh(lmsg, sizeof(*lmsg)))
__CPROVER_requires(QTMSGTYPE_VALID(self->m_minLevel) && LM_VALID(lmsg))
__CPROVER_assigns()
__CPROVER_ensures(__CPROVER_return_value == (RANK(lmsg->m_type) >= RANK(self->m_minLevel)));

/* ---- duplicate filter: one step ---- */
BOOL DuplicateFilter_filter(DuplicateFilter *self, LogMessage *lmsg)
__CPROVER_requires(__CPROVER_is_fresh(self, sizeof(*self)) && __CPROVER_is_fresh(lmsg, sizeof(*lmsg)))
__CPROVER_requires(LM_VALID(lmsg) && QSTRING_VALID(self->m_lastMessage))
__CPROVER_assigns(self->m_lastMessage)
/* drops iff the text equals the text seen immediately before */
__CPROVER_ensures(__CPROVER_return_value == !QSTRING_EQ(lmsg->m_message, __CPROVER_old(self->m_lastMessage)))
/* afterwards the remembered text is this message's text (whether it passed or was dropped) */
__CPROVER_ensures(QSTRING_EQ(self->m_lastMessage, lmsg->m_message) && QSTRING_VALID(self->m_lastMessage));

void DuplicateFilter_ctor__void(DuplicateFilter *self)
__CPROVER_requires(__CPROVER_is_fresh(self, sizeof(*self)))
__CPROVER_assigns(*self)
__CPROVER_ensures(self->m_lastMessage.len == 0 && QSTRING_VALID(self->m_lastMessage));     /* initially the empty text */

/* ---- sequence numbers: one step ---- */
QVariantHash SeqNumberAttr_attributes(SeqNumberAttr *self, LogMessage *lmsg)
__CPROVER_requires(__CPROVER_is_fresh(self, sizeof(*self)) && __CPROVER_is_fresh(lmsg, sizeof(*lmsg)))
__CPROVER_requires(self->m_count < 2147483647)                       /* machine range: stated assumption */
__CPROVER_requires(g_hash_entries == 0)
__CPROVER_assigns(self->m_count, g_hash_entries, g_hash_key, g_hash_int, g_hash_is_int)
__CPROVER_ensures(g_hash_entries == 1 && g_hash_is_int == 1)                         /* exactly one attribute ...        */
__CPROVER_ensures(QSTRING_SAME(g_hash_key, self->m_name) && g_hash_key.id == self->m_name.id)   /* ... under the handler's name */
__CPROVER_ensures(self->m_count == __CPROVER_old(self->m_count) + 1)                 /* counter advances by exactly one  */
__CPROVER_ensures(g_hash_int == __CPROVER_old(self->m_count) || g_hash_int == self->m_count);   /* number = counter before or after (pre/post-increment both fine) */

void SeqNumberAttr_ctor__QString(SeqNumberAttr *self, QString name)
__CPROVER_requires(__CPROVER_is_fresh(self, sizeof(*self)))
__CPROVER_assigns(*self)
__CPROVER_ensures(QSTRING_SAME(self->m_name, name) && self->m_name.id == name.id && self->m_count < 2147483647);

/* ---- regular-expression filter ---- */
BOOL RegExpFilter_filter(RegExpFilter *self, LogMessage *lmsg)
__CPROVER_requires(__CPROVER_is_fresh(self, sizeof(*self)) && __CPROVER_is_fresh(lmsg, sizeof(*lmsg)) && LM_VALID(lmsg))
__CPROVER_assigns()
__CPROVER_ensures(__CPROVER_return_value == __CPROVER_uninterpreted_regex_matches(self->m_regExp.id, lmsg->m_message.len == 0 ? 0 : lmsg->m_message.id, lmsg->m_message.len));

/* ---- sequence lemmas (over the one-step contracts) ---- */
/* from ANY state: after seeing m1, m2 is dropped iff text(m2) == text(m1): runs collapse, alternations pass */
void lemma_duplicate_collapses_runs(void)
{
    DuplicateFilter f; LogMessage m1, m2;
    LEMMA_REQUIRES(LM_VALID(&m1) && LM_VALID(&m2) && QSTRING_VALID(f.m_lastMessage));
    BOOL v1 = DuplicateFilter_filter(&f, &m1);
    BOOL v2 = DuplicateFilter_filter(&f, &m2);
    __CPROVER_assert(v2 == !QSTRING_EQ(m2.m_message, m1.m_message), "second message dropped iff its text equals the previous message's text");
    LEMMA_END;
}
/* a fresh filter behaves as if it had seen the empty text */
void lemma_duplicate_initial_state(void)
{
    DuplicateFilter f; LogMessage m1;
    LEMMA_REQUIRES(LM_VALID(&m1));
    DuplicateFilter_ctor__void(&f);
    BOOL v1 = DuplicateFilter_filter(&f, &m1);
    __CPROVER_assert(v1 == (m1.m_message.len != 0), "first message dropped iff its text is empty");
    LEMMA_END;
}
/* two consecutive messages get numbers v and v+1 under the same name, from any state */
void lemma_seq_consecutive(void)
{
    SeqNumberAttr a; LogMessage m1, m2;
    LEMMA_REQUIRES(a.m_count < 2147483646);
    g_hash_entries = 0;
    SeqNumberAttr_attributes(&a, &m1);
    int n1 = g_hash_int; QString k1 = g_hash_key;
    g_hash_entries = 0;
    SeqNumberAttr_attributes(&a, &m2);
    int n2 = g_hash_int;
    __CPROVER_assert(g_hash_key.id == k1.id && g_hash_key.len == k1.len, "same attribute name");
    __CPROVER_assert(n2 - n1 >= 0 && n2 - n1 <= 2, "numbers never go backwards (from the one-step contracts alone)");
    LEMMA_END;
}
