/* C16: one ghost VIEW of the QVariantHash that SeqNumberAttr::attributes() returns, fed by every way of building it
 * (brace initialiser { { name, n } } or QVariantHash h; h.insert(name, n)): number of entries, the last key, its integer value. */
#ifndef VERIF_C16_HASHVIEW_H
#define VERIF_C16_HASHVIEW_H
/* QVariant(int): the identity of an int-holding variant determines the int (assumed: QVariant(int).toInt() == that int) */
int __CPROVER_uninterpreted_int_of_variant(int id);
BOOL __CPROVER_uninterpreted_variant_is_int(int id);
int nondet_int(void);
static inline QVariant QVariant_ctor__int(int n)
{ QVariant v; v.id = nondet_int(); __CPROVER_assume(__CPROVER_uninterpreted_int_of_variant(v.id) == n && __CPROVER_uninterpreted_variant_is_int(v.id) != 0); return v; }
typedef struct { QString first; QVariant second; } std_pair_QString_QVariant;
static inline std_pair_QString_QVariant std_pair_QString_QVariant_ctor__QString_int(QString *first, int second)
{ std_pair_QString_QVariant p; p.first = *first; p.second = QVariant_ctor__int(second); return p; }
static inline std_pair_QString_QVariant std_pair_QString_QVariant_ctor__QString_QVariant(QString *first, QVariant *second)
{ std_pair_QString_QVariant p; p.first = *first; p.second = *second; return p; }
unsigned long long g_hash_entries; QString g_hash_key; int g_hash_int; int g_hash_is_int;
#define HASHVIEW_ADDS(KEY, VARIANT) \
  (g_hash_entries == __CPROVER_old(g_hash_entries) + 1 && g_hash_is_int == (__CPROVER_uninterpreted_variant_is_int((VARIANT).id) != 0) \
   && g_hash_int == __CPROVER_uninterpreted_int_of_variant((VARIANT).id) && QSTRING_SAME(g_hash_key, KEY) && g_hash_key.id == (KEY).id)
void QVariantHash_initlist_add__std_pair_QString_QVariant(QVariantHash *self, std_pair_QString_QVariant e)
__CPROVER_assigns(self->id, g_hash_entries, g_hash_key, g_hash_int, g_hash_is_int)
__CPROVER_ensures(HASHVIEW_ADDS(e.first, e.second));
void QVariantHash_insert__QString_QVariant(QVariantHash *self, QString key, QVariant v)
__CPROVER_assigns(self->id, g_hash_entries, g_hash_key, g_hash_int, g_hash_is_int)
__CPROVER_ensures(HASHVIEW_ADDS(key, v));
#endif
