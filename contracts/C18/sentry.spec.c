// C18 -- Sentry events carry the message faithfully (PARTIAL: JSON validity, UUID randomness, ISO-8601 rendering are Qt's) (DESIGN 3, C18)
//@ tus formatters/sentryformatter.cpp
//@ lower SentryFormatter::format qtMsgTypeToSentryLevel LogMessage::hasAttribute LogMessage::attribute LogMessage::attributes
//@ lower LogMessage::category LogMessage::function LogMessage::file LogMessage::line LogMessage::message LogMessage::type LogMessage::time LogMessage::threadId
//@ enforce SentryFormatter_format timeout=900
//@ enforce qtMsgTypeToSentryLevel
#define VERIF_OWN_QVARIANT 1
#define VERIF_OWN_QSTRINGLIST 1
#define QSTRING_EXTRA_FIELDS int sk; long long sv; int src;
#include "models/ident.h"
int nondet_int(void);
/* what a string is, beyond its text identity */
enum { SK_NONE = 0, SK_LEFT, SK_TS_UTC_ISO, SK_TS_OTHER, SK_UUID128, SK_UUID_OTHER, SK_NUMBER, SK_ATTRKEY, SK_VARSTR };
static inline QString sx(int id, int len, int sk, long long sv, int src) { QString s; s.isnull = 0; s.id = id; s.len = len; s.tag = 0; s.sk = sk; s.sv = sv; s.src = src; return s; }
#define QString_literal(id, len) sx(id, len, SK_NONE, 0, 0)

/* the message's custom attributes: identity + uninterpreted contents */
typedef struct { int id; } QVariant;
typedef struct { int id; int n; } QVariantHash;
BOOL __CPROVER_uninterpreted_contains(int hash, int key); int __CPROVER_uninterpreted_valueof(int hash, int key); int __CPROVER_uninterpreted_tostr(int variant);
int __CPROVER_uninterpreted_entry_key(int hash, int i);
static inline BOOL QVariantHash_contains__QString(QVariantHash h, QString k) { return __CPROVER_uninterpreted_contains(h.id, k.id) != 0; }
static inline QVariant QVariantHash_value__QString(QVariantHash h, QString k) { QVariant v; v.id = __CPROVER_uninterpreted_valueof(h.id, k.id); return v; }
static inline QString QVariant_toString(QVariant v) { return sx(__CPROVER_uninterpreted_tostr(v.id), 1, SK_VARSTR, v.id, 0); }
typedef struct { QVariantHash *h; int i; } QHash_QString_QVariant_const_iterator; typedef QHash_QString_QVariant_const_iterator HIT;
QVariantHash *g_iter_hash; int g_attrs_n, g_cur_idx;
static inline HIT QVariantHash_cbegin_const(QVariantHash *h) { HIT it; it.h = h; it.i = 0; g_iter_hash = h; g_attrs_n = h->n; return it; }
static inline HIT QVariantHash_cend_const(QVariantHash *h) { HIT it; it.h = h; it.i = h->n; return it; }
static inline BOOL QHash_QString_QVariant_const_iterator_op_ne__QHash_QString_QVariant_const_iterator(HIT a, HIT b) { return a.i != b.i; }
static inline HIT *QHash_QString_QVariant_const_iterator_op_inc(HIT *a) { a->i++; return a; }
/* entry i of the iteration: its key is contained in the hash and maps to its value (consistency of iteration and lookup) */
static inline QString QHash_QString_QVariant_const_iterator_key(HIT it)
{ __CPROVER_assert(0 <= it.i && it.i < it.h->n, "hash iterator dereferenced inside [begin,end)"); g_cur_idx = it.i;
  int k = __CPROVER_uninterpreted_entry_key(it.h->id, it.i); __CPROVER_assume(__CPROVER_uninterpreted_contains(it.h->id, k) != 0);
  return sx(k, 1, SK_ATTRKEY, it.i, 0); }
static inline QVariant QHash_QString_QVariant_const_iterator_value(HIT it)
{ __CPROVER_assert(0 <= it.i && it.i < it.h->n, "hash iterator dereferenced inside [begin,end)"); g_cur_idx = it.i;
  QVariant v; v.id = __CPROVER_uninterpreted_valueof(it.h->id, __CPROVER_uninterpreted_entry_key(it.h->id, it.i)); return v; }

/* Latin-1 C strings and comparisons on text identities */
typedef struct { int id; int len; } QLatin1String;
static inline QLatin1String QLatin1String_ctor__cstr(cstr c) { QLatin1String l; l.id = c.id; l.len = c.len; return l; }
static inline BOOL QString_op_eq__QLatin1String(QString s, QLatin1String l) { return (s.len == 0 && l.len == 0) || (s.len != 0 && l.len != 0 && s.id == l.id); }
static inline BOOL QString_op_ne__QLatin1String(QString s, QLatin1String l) { return !QString_op_eq__QLatin1String(s, l); }
static inline QString QString_fromLatin1__cstr(cstr c) { QString s = sx(c.isnull ? 0 : c.id, c.isnull ? 0 : c.len, SK_NONE, 0, 0); s.isnull = c.isnull; return s; }
static inline unsigned long strlen__cstr(cstr c) { return (unsigned long)c.len; }
static inline cstr qVersion(void) { return cstr_lit(-3001, 6); }
static inline QString QString_number__unsignedlonglong(unsigned long long v) { return sx(nondet_int(), 1, SK_NUMBER, (long long)(v & 0x7fffffffffffffffULL), 0); }
static inline QString QString_left__int(QString s, int n) { QString r = sx(nondet_int(), s.len < n ? s.len : (n < 0 ? s.len : n), SK_LEFT, n, s.id); if (n < 0 || s.len <= n) r.id = s.id; return r; }
/* further string API a changed implementation may use (results are OTHER texts unless the model knows better) */
BOOL __CPROVER_uninterpreted_str_contains(int hay, int needle);
static inline BOOL QString_contains__QString(QString hay, QString needle) { return __CPROVER_uninterpreted_str_contains(hay.id, needle.id) != 0; }       /* substring search: NOT set membership */
static inline BOOL QString_startsWith__QString(QString hay, QString needle) { return __CPROVER_uninterpreted_str_contains(hay.id, -needle.id) != 0; }
static inline BOOL op_eq__QString_QString_(QString a, QString b) { return QSTRING_EQ(a, b); }
static inline QByteArray QString_toUtf8(QString *s) { QByteArray b; b.isnull = s->isnull; b.id = s->id; b.len = nondet_int(); __CPROVER_assume(b.len >= s->len); b.owner = 8; return b; }      /* owner 8: UTF-8 bytes of text id */
static inline QByteArray QString_toLatin1(QString *s) { QByteArray b; b.isnull = s->isnull; b.id = s->id; b.len = s->len; b.owner = 1; return b; }
static inline QByteArray QByteArray_left__int(QByteArray b, int n) { QByteArray r = b; if (n >= 0 && n < b.len) { r.len = n; r.id = nondet_int(); r.owner = 0; } return r; }           /* a byte prefix: another text */
static inline QString QString_mid__int_int(QString s, int p, int n) { return sx(nondet_int(), 1, SK_NONE, 0, 0); }
static inline QString QString_chopped__int(QString s, int n) { return sx(nondet_int(), 1, SK_NONE, 0, 0); }
static inline int QString_size(QString s) { return s.len; }
static inline int QString_length(QString s) { return s.len; }
/* time and ids */
enum { E_Qt_DateFormat_TextDate = 0, E_Qt_DateFormat_ISODate = 1, E_Qt_DateFormat_ISODateWithMs = 9 };
static inline QDateTime QDateTime_toUTC(QDateTime t) { QDateTime u = t; u.valid = 2; return u; }         /* valid == 2: expressed in UTC */
static inline QString QDateTime_toString__Qt_DateFormat(QDateTime t, int fmt) { return sx(nondet_int(), 20, (t.valid == 2 && fmt == E_Qt_DateFormat_ISODate) ? SK_TS_UTC_ISO : SK_TS_OTHER, t.msecs, 0); }
typedef struct { long long serial; } QUuid; enum { E_QUuid_StringFormat_WithBraces = 0, E_QUuid_StringFormat_WithoutBraces = 1, E_QUuid_StringFormat_Id128 = 3 };
long long g_uuids;
static inline QUuid QUuid_createUuid(void) { QUuid u; if (g_uuids < 1000000000000LL) g_uuids++; u.serial = g_uuids; return u; }         /* axiom: fresh on every call */
static inline QString QUuid_toString__QUuid_StringFormat(QUuid u, int fmt) { return sx(nondet_int(), 32, fmt == E_QUuid_StringFormat_Id128 ? SK_UUID128 : SK_UUID_OTHER, u.serial, 0); }

/* JSON values, objects (literal-key table + dynamic attribute keys), arrays */
enum { JV_NULL = 0, JV_STRING, JV_INT, JV_OBJ, JV_ARR, JV_VARIANT };
typedef struct { int kind; int id; int len; int sk; long long sv; int src; } QJsonValue;
#define JCAP 14
typedef struct { int oid; int n; int k[JCAP]; QJsonValue v[JCAP]; } QJsonObject;
typedef struct { int n; QJsonValue e[4]; } QJsonArray;
typedef struct { QJsonObject *o; int key; int dyn; } QJsonValueRef;
typedef struct { int oid; } QJsonDocument;
enum { E_QJsonDocument_JsonFormat_Indented = 0, E_QJsonDocument_JsonFormat_Compact = 1 }; typedef int QJsonDocument_JsonFormat;
int g_oids; QJsonObject g_objs[16]; QJsonArray g_arr;
static inline QJsonObject QJsonObject_ctor(void) { QJsonObject o; if (g_oids < 15) g_oids++; o.oid = g_oids; o.n = 0; return o; }
static inline BOOL QJsonObject_isEmpty(QJsonObject o) { return o.n == 0; }
static inline QJsonValue QJsonValue_ctor__QString(QString s) { QJsonValue v; v.kind = JV_STRING; v.id = s.id; v.len = s.len; v.sk = s.sk; v.sv = s.sv; v.src = s.src; return v; }
static inline QJsonValue QJsonValue_ctor__int(int i) { QJsonValue v; v.kind = JV_INT; v.id = 0; v.len = 0; v.sk = 0; v.sv = i; v.src = 0; return v; }
static inline QJsonValue QJsonValue_ctor__QJsonObject(QJsonObject o) { QJsonValue v; v.kind = JV_OBJ; v.id = o.oid; v.len = o.n; v.sk = 0; v.sv = 0; v.src = 0; if (o.oid >= 0 && o.oid < 16) g_objs[o.oid] = o; return v; }
static inline QJsonValue QJsonValue_ctor__QJsonArray(QJsonArray a) { QJsonValue v; v.kind = JV_ARR; v.id = 1; v.len = a.n; v.sk = 0; v.sv = 0; v.src = 0; g_arr = a; return v; }
static inline QJsonValue QJsonValue_fromVariant__QVariant(QVariant x) { QJsonValue v; v.kind = JV_VARIANT; v.id = x.id; v.len = 0; v.sk = 0; v.sv = 0; v.src = 0; return v; }
static inline QJsonArray QJsonArray_ctor(void) { QJsonArray a; a.n = 0; return a; }
static inline void QJsonArray_append__QJsonValue(QJsonArray *a, QJsonValue v) { __CPROVER_assert(a->n >= 0 && a->n < 4, "array within the model's capacity"); a->e[a->n] = v; a->n = a->n + 1; }
static inline QJsonValueRef QJsonObject_op_index__QString(QJsonObject *o, QString key) { QJsonValueRef r; r.o = o; r.key = key.id; r.dyn = (key.sk == SK_ATTRKEY); return r; }
/* witness entry of the attribute hash: how often and how it went into an object under its own key */
int g_j; unsigned long long g_dyn_j, g_dyn_total; int g_dyn_val_ok, g_dyn_obj;
#define UPD(i) if (!done && r->o->n > (i) && r->o->k[i] == r->key) { r->o->v[i] = v; done = 1; }
static inline QJsonValueRef *QJsonValueRef_op_assign__QJsonValue(QJsonValueRef *r, QJsonValue v)
{
    if (r->dyn) { g_dyn_total++; g_dyn_obj = r->o->oid;
        if (g_cur_idx == g_j) { g_dyn_j++; g_dyn_val_ok = (r->key == __CPROVER_uninterpreted_entry_key(g_iter_hash->id, g_j) && v.kind == JV_VARIANT
                                                           && v.id == __CPROVER_uninterpreted_valueof(g_iter_hash->id, __CPROVER_uninterpreted_entry_key(g_iter_hash->id, g_j))); }
        return r; }
    int done = 0; UPD(0) UPD(1) UPD(2) UPD(3) UPD(4) UPD(5) UPD(6) UPD(7) UPD(8) UPD(9) UPD(10) UPD(11) UPD(12) UPD(13)
    if (!done) { __CPROVER_assert(r->o->n >= 0 && r->o->n < JCAP, "object within the model's capacity"); r->o->k[r->o->n] = r->key; r->o->v[r->o->n] = v; r->o->n = r->o->n + 1; }
    return r;
}
/* lookup by literal key */
#define LK(i) if (o.n > (i) && o.k[i] == key) { r = o.v[i]; }
static inline QJsonValue jlookup(QJsonObject o, int key) { QJsonValue r; r.kind = JV_NULL; r.id = 0; r.len = 0; r.sk = 0; r.sv = 0; r.src = 0;
  LK(0) LK(1) LK(2) LK(3) LK(4) LK(5) LK(6) LK(7) LK(8) LK(9) LK(10) LK(11) LK(12) LK(13) return r; }
/* QJsonDocument(event): the finished event is flattened into ghost scalars the contract can talk about */
QJsonValue g_e_event_id, g_e_timestamp, g_e_level, g_e_logger, g_e_msg_formatted, g_e_fp0, g_e_fp1, g_e_fp2, g_e_extra, g_e_tag_appname, g_e_tag_appversion,
           g_e_os_name, g_e_os_version, g_e_os_kernel, g_e_os_build, g_e_dev_arch, g_e_dev_name; int g_e_fp_n, g_e_has_os, g_e_has_dev; int g_doc_fmt;
#define SUB(v) ((v).kind == JV_OBJ && (v).id >= 0 && (v).id < 16 ? g_objs[(v).id] : g_objs[0])
static inline QJsonDocument QJsonDocument_ctor__QJsonObject(QJsonObject ev)
{
    QJsonDocument d; d.oid = ev.oid; g_objs[0].n = 0;
    g_e_event_id = jlookup(ev, LIT_event_id); g_e_timestamp = jlookup(ev, LIT_timestamp); g_e_level = jlookup(ev, LIT_level); g_e_logger = jlookup(ev, LIT_logger);
    g_e_msg_formatted = jlookup(SUB(jlookup(ev, LIT_message)), LIT_formatted); g_e_extra = jlookup(ev, LIT_extra);
    QJsonValue fp = jlookup(ev, LIT_fingerprint); g_e_fp_n = fp.kind == JV_ARR ? g_arr.n : -1; g_e_fp0 = g_arr.e[0]; g_e_fp1 = g_arr.e[1]; g_e_fp2 = g_arr.e[2];
    QJsonObject tags = SUB(jlookup(ev, LIT_tags)); g_e_tag_appname = jlookup(tags, LIT_app_name); g_e_tag_appversion = jlookup(tags, LIT_app_version);
    QJsonObject ctxs = SUB(jlookup(ev, LIT_contexts)); QJsonValue osv = jlookup(ctxs, LIT_os), dv = jlookup(ctxs, LIT_device); g_e_has_os = osv.kind == JV_OBJ; g_e_has_dev = dv.kind == JV_OBJ;
    QJsonObject os = SUB(osv), dev = SUB(dv);
    g_e_os_name = jlookup(os, LIT_name); g_e_os_version = jlookup(os, LIT_version); g_e_os_kernel = jlookup(os, LIT_kernel_version); g_e_os_build = jlookup(os, LIT_build);
    g_e_dev_arch = jlookup(dev, LIT_arch); g_e_dev_name = jlookup(dev, LIT_name);
    return d;
}
static inline QByteArray QJsonDocument_toJson__QJsonDocument_JsonFormat(QJsonDocument d, int fmt) { QByteArray b; b.isnull = 0; b.id = d.oid; b.len = 2; b.owner = 0; g_doc_fmt = fmt; return b; }
static inline QString QString_fromUtf8__QByteArray(QByteArray b) { return sx(b.id, b.len, SK_NONE, 0, 0); }      /* same text identity iff the bytes are the whole UTF-8 of it */
//@ ---
#define LEVEL_WORD(t) ((t) == QtDebugMsg ? LIT_debug : (t) == QtInfoMsg ? LIT_info : (t) == QtWarningMsg ? LIT_warning : (t) == QtCriticalMsg ? LIT_error : LIT_fatal)
QString qtMsgTypeToSentryLevel(QtMsgType type)
__CPROVER_requires(QTMSGTYPE_VALID(type))
__CPROVER_assigns()
__CPROVER_ensures(__CPROVER_return_value.id == LEVEL_WORD(type) && __CPROVER_return_value.sk == SK_NONE);   /* debug/info/warning/error/fatal */

#define A(m) ((m)->m_attributes.id)
#define HASATTR(m, K) (__CPROVER_uninterpreted_contains(A(m), K) != 0)
#define ATTRSTR(m, K) (__CPROVER_uninterpreted_tostr(__CPROVER_uninterpreted_valueof(A(m), K)))
#define IS_STR(v, ID) ((v).kind == JV_STRING && (v).id == (ID))
#define ROUTED(k) ((k) == LIT_appname || (k) == LIT_appversion || (k) == LIT_os_name || (k) == LIT_os_version || (k) == LIT_kernel_version || (k) == LIT_build_abi || (k) == LIT_cpu_arch || (k) == LIT_host_name)
int g_keyj;      /* key of the witness entry (tied to the hash by format()'s precondition) */
#define KEYJ(m) g_keyj
#define CATLEN(m) ((m)->m_context.category.isnull ? 0 : (m)->m_context.category.len)

QString SentryFormatter_format(SentryFormatter *self, LogMessage *lmsg)
__CPROVER_requires(__CPROVER_is_fresh(self, sizeof(*self)) && __CPROVER_is_fresh(lmsg, sizeof(*lmsg)) && QTMSGTYPE_VALID(lmsg->m_type) && QSTRING_VALID(lmsg->m_message))
__CPROVER_requires(CSTR_VALID(lmsg->m_context.category) && CSTR_VALID(lmsg->m_context.function) && CSTR_VALID(lmsg->m_context.file) && lmsg->m_attributes.n >= 0 && lmsg->m_attributes.n < 1000000000)
__CPROVER_requires(g_j >= 0 && g_dyn_j == 0 && g_oids == 0 && g_uuids >= 0 && g_uuids < 1000000000000LL && g_keyj == __CPROVER_uninterpreted_entry_key(lmsg->m_attributes.id, g_j))
__CPROVER_assigns(g_oids, g_objs, g_arr, g_uuids, g_iter_hash, g_attrs_n, g_cur_idx, g_dyn_j, g_dyn_total, g_dyn_val_ok, g_dyn_obj, g_doc_fmt, g_e_event_id, g_e_timestamp, g_e_level, g_e_logger, g_e_msg_formatted, \
                  g_e_fp0, g_e_fp1, g_e_fp2, g_e_fp_n, g_e_extra, g_e_tag_appname, g_e_tag_appversion, g_e_os_name, g_e_os_version, g_e_os_kernel, g_e_os_build, g_e_dev_arch, g_e_dev_name, g_e_has_os, g_e_has_dev)
/* a fresh id in 32-hex-digit form; the UTC ISO-8601 rendering of the message's own time; the level word; the text */
__CPROVER_ensures(g_e_event_id.kind == JV_STRING && g_e_event_id.sk == SK_UUID128 && g_e_event_id.sv > __CPROVER_old(g_uuids))
__CPROVER_ensures(g_e_timestamp.kind == JV_STRING && g_e_timestamp.sk == SK_TS_UTC_ISO && g_e_timestamp.sv == lmsg->m_time.msecs)
__CPROVER_ensures(IS_STR(g_e_level, LEVEL_WORD(lmsg->m_type)))
__CPROVER_ensures(IS_STR(g_e_msg_formatted, lmsg->m_message.id) && g_e_msg_formatted.len == lmsg->m_message.len)
/* logger only for a non-empty, non-"default" category */
__CPROVER_ensures((CATLEN(lmsg) != 0 && lmsg->m_context.category.id != LIT_default) ==> (IS_STR(g_e_logger, lmsg->m_context.category.id) && g_e_logger.len == CATLEN(lmsg)))
__CPROVER_ensures((CATLEN(lmsg) == 0 || lmsg->m_context.category.id == LIT_default) ==> g_e_logger.kind == JV_NULL)
/* fingerprint [level, category or "default", first 100 characters of the message] */
__CPROVER_ensures(g_e_fp_n == 3 && IS_STR(g_e_fp0, LEVEL_WORD(lmsg->m_type)) && IS_STR(g_e_fp1, CATLEN(lmsg) == 0 ? LIT_default : lmsg->m_context.category.id))
__CPROVER_ensures(g_e_fp2.kind == JV_STRING && (lmsg->m_message.len <= 100 ? (g_e_fp2.id == lmsg->m_message.id) : (g_e_fp2.sk == SK_LEFT && g_e_fp2.sv == 100 && g_e_fp2.src == lmsg->m_message.id && g_e_fp2.len == 100)))
/* every custom attribute exactly once: the specially routed names in their dedicated slot ... */
__CPROVER_ensures(HASATTR(lmsg, LIT_appname) ==> IS_STR(g_e_tag_appname, ATTRSTR(lmsg, LIT_appname)))
__CPROVER_ensures(HASATTR(lmsg, LIT_appversion) ==> IS_STR(g_e_tag_appversion, ATTRSTR(lmsg, LIT_appversion)))
__CPROVER_ensures(HASATTR(lmsg, LIT_os_name) ==> (g_e_has_os && IS_STR(g_e_os_name, ATTRSTR(lmsg, LIT_os_name))))
__CPROVER_ensures(HASATTR(lmsg, LIT_os_version) ==> (g_e_has_os && IS_STR(g_e_os_version, ATTRSTR(lmsg, LIT_os_version))))
__CPROVER_ensures(HASATTR(lmsg, LIT_kernel_version) ==> (g_e_has_os && IS_STR(g_e_os_kernel, ATTRSTR(lmsg, LIT_kernel_version))))
__CPROVER_ensures(HASATTR(lmsg, LIT_build_abi) ==> (g_e_has_os && IS_STR(g_e_os_build, ATTRSTR(lmsg, LIT_build_abi))))
__CPROVER_ensures(HASATTR(lmsg, LIT_cpu_arch) ==> (g_e_has_dev && IS_STR(g_e_dev_arch, ATTRSTR(lmsg, LIT_cpu_arch))))
__CPROVER_ensures(HASATTR(lmsg, LIT_host_name) ==> (g_e_has_dev && IS_STR(g_e_dev_name, ATTRSTR(lmsg, LIT_host_name))))
/* ... and every other one (arbitrary entry g_j) under `extra`, once, with its value intact; the routed ones not there as well */
__CPROVER_ensures((g_j < lmsg->m_attributes.n && !ROUTED(KEYJ(lmsg))) ==> (g_dyn_j == 1 && g_dyn_val_ok && g_e_extra.kind == JV_OBJ && g_dyn_obj == g_e_extra.id))
__CPROVER_ensures((g_j < lmsg->m_attributes.n && ROUTED(KEYJ(lmsg))) ==> g_dyn_j == 0)
__CPROVER_ensures(g_doc_fmt == E_QJsonDocument_JsonFormat_Compact);
#if defined(LOOPKIND_SentryFormatter_format_0_for) && defined(HASVAR_SentryFormatter_format_attrs) && defined(HASVAR_SentryFormatter_format_extra)
#define LOOP_SentryFormatter_format_0 \
  __CPROVER_assigns(it.i, g_cur_idx, g_dyn_j, g_dyn_total, g_dyn_val_ok, g_dyn_obj) \
  __CPROVER_loop_invariant(it.h == &attrs && 0 <= it.i && it.i <= attrs.n && g_iter_hash == &attrs && attrs.id == lmsg->m_attributes.id && attrs.n == lmsg->m_attributes.n) \
  __CPROVER_loop_invariant(it.i <= g_j ==> g_dyn_j == 0) \
  __CPROVER_loop_invariant((it.i > g_j && !ROUTED(KEYJ(lmsg))) ==> (g_dyn_j == 1 && g_dyn_val_ok && g_dyn_obj == extra.oid)) \
  __CPROVER_loop_invariant((it.i > g_j && ROUTED(KEYJ(lmsg))) ==> g_dyn_j == 0) \
  __CPROVER_decreases(attrs.n - it.i)
#endif
