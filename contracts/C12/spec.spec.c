// C12 (1/3) -- the format specification [fill][align][width][!] is parsed as documented and applied as the documented
// padding / truncation table prescribes; the value's characters keep their order and are only framed by fill characters
// (tracked by an arbitrary witness character of the value), DESIGN 3 C12
//@ tus formatters/patternformatter.cpp
//@ lower FormattedToken::parseFormatSpec FormattedToken::applyPadding FormattedToken::charToAlignment
//@ enforce FormattedToken_parseFormatSpec
//@ enforce FormattedToken_applyPadding timeout=1200
/* QStringLiteral("<^>").contains(ch): exact membership for the one literal parseFormatSpec asks about (an edited literal gets another
 * identity, is not recognised, and the clause about it then fails) */
#ifndef LITX____
#define LITX____ (-4001)
#endif
#define QS_LITERAL_CONTAINS(s, c, r) if ((s).id == LITX____ && (s).len == 3) r = ((c).u == 60 || (c).u == 62 || (c).u == 94);
#include "contracts/len_part1.h"
//@ ---
#include "contracts/len_c12.h"
#include "contracts/len_common.h"
