// C12 (2/3) -- what each token appends: message text, category, file and attribute values verbatim (framed by padding only),
// literal text unchanged, optional attributes as documented (remove N before, swallow M after through delete markers); DESIGN 3 C12.
// "Verbatim" is stated on an ARBITRARY witness character of the value (position g_src_wpos, code unit g_wch): it arrives at the
// position the documented padding table gives, so every character does, in order.
//@ tus formatters/patternformatter.cpp
//@ lower FormattedToken::applyPadding
//@ lower LiteralToken::appendToString MessageToken::appendToString FileToken::appendToString CategoryToken::appendToString AttributeToken::appendToString LineToken::appendToString
//@ enforce MessageToken_appendToString
//@ enforce CategoryToken_appendToString
//@ enforce FileToken_appendToString
//@ enforce LineToken_appendToString
//@ enforce AttributeToken_appendToString timeout=1500
//@ enforce LiteralToken_appendToString timeout=1500 define=OBL_LITERAL_CHOP
/* the value a token obtained from Qt (fromUtf8 of a context string, toString of an attribute, number text) and its source */
#define QS_VALUE_HOOK(s, kind, srcid) g_val = (s); g_val_kind = (kind); g_val_src = (srcid);
/* LiteralToken strips trailing delete markers one by one: what it removes must be a marker the formatter put there, never a character
 * of a value (the witness): OBLIGATION "no character of a value is dropped" */
#ifdef OBL_LITERAL_CHOP      /* (AttributeToken's chop is the DOCUMENTED "remove N characters before": no obligation there) */
#define OBL_C12_CHOP(s, n) __CPROVER_assert(!((s).wpos >= (s).len - (n)), "C12 verbatim: a character removed from the end of the buffer is a delete marker of the formatter, not a character of a value");
#endif
#include "contracts/len_part1.h"
//@ ---
#include "contracts/len_c12.h"
#include "contracts/len_common.h"
#define TOKEN_OK(self) (__CPROVER_is_fresh(self, sizeof(*self)) && SPEC_VALID((self)->_base.m_spec))
#define SP (self->_base.m_spec)
#define OLD_LEN __CPROVER_old(dest->len)
#define OLD_WPOS __CPROVER_old(dest->wpos)
/* *dest == old *dest ++ pad(VAL): length, and where the witness character of VAL (if it has it) ends up; an earlier witness stays put */
#define APPENDED_PADDED(VAL) \
  ((long long)dest->len == (long long)OLD_LEN + (long long)PD_LEN(SP, (VAL).len) && \
   (long long)dest->wpos == (OLD_WPOS >= 0 ? (long long)OLD_WPOS : (PD_WPOS(SP, (VAL).len, (VAL).wpos) >= 0 ? (long long)OLD_LEN + (long long)PD_WPOS(SP, (VAL).len, (VAL).wpos) : -1LL)))
#define COMMON_REQ (TOKEN_OK(self) && __CPROVER_is_fresh(lmsg, sizeof(*lmsg)) && LMSG_OK(lmsg) && __CPROVER_is_fresh(dest, sizeof(*dest)) && QSTRING_VALID(*dest))
#ifdef KF_C12_NO_ZWSP_IN_VALUES
#define KF_REQ (g_wch != MARK)          /* the recorded finding's input class excluded: no U+200B among the value characters */
#else
#define KF_REQ 1
#endif

/* %{message}: the message text itself */
void MessageToken_appendToString(MessageToken *self, LogMessage *lmsg, QString *dest)
__CPROVER_requires(COMMON_REQ)
__CPROVER_assigns(*dest, g_val, g_val_kind, g_val_src)
__CPROVER_ensures(QSTRING_VALID(*dest) && APPENDED_PADDED(lmsg->m_message));
/* %{category}, %{file}: the text of that context string (fromUtf8), nothing else */
void CategoryToken_appendToString(CategoryToken *self, LogMessage *lmsg, QString *dest)
__CPROVER_requires(COMMON_REQ)
__CPROVER_assigns(*dest, g_val, g_val_kind, g_val_src)
__CPROVER_ensures(QSTRING_VALID(*dest) && g_val_kind == SRC_CSTR && g_val_src == lmsg->m_context.category.id && APPENDED_PADDED(g_val));
void FileToken_appendToString(FileToken *self, LogMessage *lmsg, QString *dest)
__CPROVER_requires(COMMON_REQ)
__CPROVER_assigns(*dest, g_val, g_val_kind, g_val_src)
__CPROVER_ensures(QSTRING_VALID(*dest) && g_val_kind == SRC_CSTR && g_val_src == lmsg->m_context.file.id && APPENDED_PADDED(g_val));
/* %{line}: the decimal text of the line number */
void LineToken_appendToString(LineToken *self, LogMessage *lmsg, QString *dest)
__CPROVER_requires(COMMON_REQ)
__CPROVER_assigns(*dest, g_val, g_val_kind, g_val_src)
__CPROVER_ensures(QSTRING_VALID(*dest) && g_val_kind == SRC_NUMBER && g_val_src == lmsg->m_context.line && APPENDED_PADDED(g_val));

/* %{name}, %{name?}, %{name?N}, %{name?N,M} (docs "Custom Attributes") */
#define ATTR_PRESENT (__CPROVER_uninterpreted_hash_contains(lmsg->m_attributes.id, self->m_attributeName.id) != 0)
#define RB (self->m_removeBefore)
#define RA (self->m_removeAfter)
void AttributeToken_appendToString(AttributeToken *self, LogMessage *lmsg, QString *dest)
__CPROVER_requires(COMMON_REQ && QSTRING_VALID(self->m_attributeName) && self->m_attributeName.wpos == -1 && IS_BOOL(self->m_optional))
__CPROVER_assigns(*dest, g_val, g_val_kind, g_val_src)
__CPROVER_ensures(QSTRING_VALID(*dest))
/* present (with ANY value, also an empty one): the value's text, padded */
__CPROVER_ensures(!ATTR_PRESENT || (g_val_kind == SRC_VARIANT && g_val_src == __CPROVER_uninterpreted_hash_value(lmsg->m_attributes.id, self->m_attributeName.id) && APPENDED_PADDED(g_val)))
/* missing and not optional: the placeholder text "%{name}" (3 characters around the name), padded */
__CPROVER_ensures(!(!ATTR_PRESENT && !self->m_optional) || ((long long)dest->len == (long long)OLD_LEN + (long long)PD_LEN(SP, self->m_attributeName.len + 3) && dest->wpos == OLD_WPOS))
/* missing and optional: N characters before removed (when there are that many), M delete markers appended */
__CPROVER_ensures(!(!ATTR_PRESENT && self->m_optional) || ((long long)dest->len == (long long)OLD_LEN - ((RB > 0 && OLD_LEN >= RB) ? (long long)RB : 0LL) + (RA > 0 ? (long long)RA : 0LL) && dest->tail >= (RA > 0 ? RA : 0)
                   && dest->wpos == (OLD_WPOS < OLD_LEN - ((RB > 0 && OLD_LEN >= RB) ? RB : 0) ? OLD_WPOS : -1)));
#if defined(LOOPKIND_AttributeToken_appendToString_0_for)
#define LOOP_AttributeToken_appendToString_0 \
  __CPROVER_loop_invariant(QSTRING_VALID(*dest) && i >= 0 && (i <= RA || RA < 0) && dest->len - i == __CPROVER_loop_entry(dest->len) && dest->tail >= i && dest->wpos == __CPROVER_loop_entry(dest->wpos)) \
  __CPROVER_decreases((long long)RA - (long long)i)
#endif

/* literal pattern text: reproduced unchanged after the buffer, except that t pending delete markers at the end of the buffer are
 * removed together with the first t characters of the literal (the documented "remove M after" of a missing optional attribute) */
#define OLD_TAIL __CPROVER_old(dest->tail)
#define TXT (self->m_text)
void LiteralToken_appendToString(LiteralToken *self, LogMessage *lmsg, QString *dest)
__CPROVER_requires(COMMON_REQ && QSTRING_VALID(self->m_text) && KF_REQ)
__CPROVER_assigns(*dest)
__CPROVER_ensures(QSTRING_VALID(*dest))
__CPROVER_ensures((long long)dest->len == (long long)OLD_LEN - (long long)OLD_TAIL + (OLD_TAIL < TXT.len ? (long long)TXT.len - (long long)OLD_TAIL : 0LL))
__CPROVER_ensures(dest->wpos == (OLD_WPOS >= 0 ? OLD_WPOS : ((TXT.wpos >= OLD_TAIL && OLD_TAIL < TXT.len) ? (int)((long long)OLD_LEN - (long long)OLD_TAIL + (long long)TXT.wpos - (long long)OLD_TAIL) : -1)))
__CPROVER_ensures(!(OLD_TAIL == 0 && TXT.len >= 1) || (dest->cl == TXT.cl && dest->tail == (TXT.tail == TXT.len ? TXT.len : TXT.tail)));
#if defined(LOOPKIND_LiteralToken_appendToString_0_while)
#define LOOP_LiteralToken_appendToString_0 \
  __CPROVER_loop_invariant(QSTRING_VALID(*dest) && removeCount >= 0 && removeCount <= __CPROVER_loop_entry(dest->tail) && dest->len == __CPROVER_loop_entry(dest->len) - removeCount \
                           && dest->tail == __CPROVER_loop_entry(dest->tail) - removeCount && dest->wpos == __CPROVER_loop_entry(dest->wpos)) \
  __CPROVER_decreases(dest->len)
#endif
