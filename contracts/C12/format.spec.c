// C12 (3/3) -- PatternFormatterPrivate::format(): the tokens whose condition matches are asked to append, each exactly once, in
// pattern order, to one buffer; the only other thing that happens to the buffer is the final removal of the delete markers, which
// must not remove a character of a value (DESIGN 3 C12).  An ARBITRARY token index g_k is observed (so every token is).
//@ tus formatters/patternformatter.cpp
//@ lower PatternFormatter::PatternFormatterPrivate::format ConditionToken::checkCondition
//@ structs FormattedToken::FormatSpec FormattedToken
//@ enforce PatternFormatter_PatternFormatterPrivate_format
//@ enforce ConditionToken_checkCondition
/* format() finishes with result.remove(DEL_MARKER): what it removes must be delete markers of the formatter, never a character of a value */
#define OBL_C12_REMOVE(s, c) __CPROVER_assert(!((s).wpos >= 0 && g_wch == (c).u), "C12 verbatim: the final removal of delete markers removes no character of a value");
#include "contracts/len_part1.h"
typedef struct Token Token;
typedef struct { Token *p; int idx; } QSharedPointer_Token;
typedef struct { int n; } QList_QSharedPointer_Token;
typedef QList_QSharedPointer_Token add_const_t_QList_QSharedPointer_Token;
typedef struct { int n; int i; } QList_QSharedPointer_Token_const_iterator;
static inline BOOL QList_QSharedPointer_Token_isEmpty(QList_QSharedPointer_Token l) { return l.n == 0; }
static inline QList_QSharedPointer_Token_const_iterator QList_QSharedPointer_Token_begin(QList_QSharedPointer_Token *l) { QList_QSharedPointer_Token_const_iterator it; it.n = l->n; it.i = 0; return it; }
static inline QList_QSharedPointer_Token_const_iterator QList_QSharedPointer_Token_end(QList_QSharedPointer_Token *l) { QList_QSharedPointer_Token_const_iterator it; it.n = l->n; it.i = l->n; return it; }
static inline BOOL QList_QSharedPointer_Token_const_iterator_op_ne__QList_QSharedPointer_Token_const_iterator(QList_QSharedPointer_Token_const_iterator a, QList_QSharedPointer_Token_const_iterator b) { return a.i != b.i; }
static inline QList_QSharedPointer_Token_const_iterator *QList_QSharedPointer_Token_const_iterator_op_inc(QList_QSharedPointer_Token_const_iterator *it)
{ __CPROVER_assert(it->i < it->n, "C14 iterator: ++ on an iterator that is not end()"); it->i = it->i + 1; return it; }
/* ghosts: the observed token index, its (fixed) condition verdict for this message, how often it was asked to append, the index of
 * the token that appended last (order), the element the code is looking at */
int g_k, g_cond_k, g_appends_k, g_last_appended, g_cur;
//@ ---
#include "contracts/len_common.h"
Token g_tok;
static inline QSharedPointer_Token QList_QSharedPointer_Token_const_iterator_op_deref(QList_QSharedPointer_Token_const_iterator it)
{ __CPROVER_assert(it.i >= 0 && it.i < it.n, "C14 iterator: * on an iterator inside the list"); QSharedPointer_Token t; t.p = &g_tok; t.idx = it.i; return t; }
static inline Token *QSharedPointer_Token_op_arrow(QSharedPointer_Token t) { g_cur = t.idx; return t.p; }
static inline Token *QSharedPointer_Token_data(QSharedPointer_Token t) { g_cur = t.idx; return t.p; }
static inline Token *QSharedPointer_Token_get(QSharedPointer_Token t) { g_cur = t.idx; return t.p; }
/* the same elements through index access */
static inline QSharedPointer_Token QList_QSharedPointer_Token_at__int(QList_QSharedPointer_Token l, int i)
{ __CPROVER_assert(i >= 0 && i < l.n, "C14 index in range: QList::at(i) needs 0 <= i < size()"); QSharedPointer_Token t; t.p = &g_tok; t.idx = i; return t; }
static inline QSharedPointer_Token QList_QSharedPointer_Token_op_index__int(QList_QSharedPointer_Token l, int i) { return QList_QSharedPointer_Token_at__int(l, i); }
static inline int QList_QSharedPointer_Token_size(QList_QSharedPointer_Token l) { return l.n; }
static inline int QList_QSharedPointer_Token_count(QList_QSharedPointer_Token l) { return l.n; }
#ifdef KF_C12_NO_ZWSP_IN_VALUES
#define KF_REQ (g_wch != MARK)
#else
#define KF_REQ 1
#endif
/* virtual dispatch on "the token at index g_cur" */
BOOL Token_checkCondition(Token *self, LogMessage *lmsg)
__CPROVER_requires(self == &g_tok)
__CPROVER_assigns()
__CPROVER_ensures(IS_BOOL(__CPROVER_return_value) && (g_cur != g_k || __CPROVER_return_value == g_cond_k));      /* a token's verdict on one message does not change */
unsigned long Token_estimatedLength(Token *self)
__CPROVER_requires(self == &g_tok)
__CPROVER_assigns()
__CPROVER_ensures(__CPROVER_return_value <= 0x7fffffffUL);
/* appendToString: proved per concrete token in contracts/C12/tokens.spec.c and contracts/C14/tokens.spec.c; here: it is asked in
 * pattern order (obligation), only of tokens whose condition matched (obligation), and never twice */
void Token_appendToString(Token *self, LogMessage *lmsg, QString *dest)
__CPROVER_requires(self == &g_tok && QSTRING_VALID(*dest))
__CPROVER_requires(g_cur > g_last_appended)                                   /* OBLIGATION: pattern order, no token twice */
__CPROVER_requires(g_cur != g_k || g_cond_k == 1)                             /* OBLIGATION: only tokens whose condition matches */
__CPROVER_assigns(*dest, g_appends_k, g_last_appended)
__CPROVER_ensures(QSTRING_VALID(*dest) && g_last_appended == g_cur && g_appends_k == __CPROVER_old(g_appends_k) + (g_cur == g_k ? 1 : 0));

QString PatternFormatter_PatternFormatterPrivate_format(PatternFormatter_PatternFormatterPrivate *self, LogMessage *lmsg)
__CPROVER_requires(__CPROVER_is_fresh(self, sizeof(*self)) && self->m_tokens.n >= 0 && __CPROVER_is_fresh(lmsg, sizeof(*lmsg)) && LMSG_OK(lmsg))
__CPROVER_requires(g_appends_k == 0 && g_last_appended == -1 && IS_BOOL(g_cond_k) && g_k >= 0 && KF_REQ)
__CPROVER_assigns(g_appends_k, g_last_appended, g_cur)
__CPROVER_ensures(QSTRING_VALID(__CPROVER_return_value))
/* a pattern without tokens prints the message; otherwise token g_k appended exactly once iff it exists and its condition matched */
__CPROVER_ensures(self->m_tokens.n == 0 ? (__CPROVER_return_value.len == lmsg->m_message.len && __CPROVER_return_value.wpos == lmsg->m_message.wpos)
                                        : g_appends_k == ((g_k < self->m_tokens.n && g_cond_k) ? 1 : 0));
#if defined(LOOPKIND_PatternFormatter_PatternFormatterPrivate_format_0_range_for) && defined(LOOPKIND_PatternFormatter_PatternFormatterPrivate_format_1_range_for)
#define LOOP_PatternFormatter_PatternFormatterPrivate_format_0 \
  __CPROVER_assigns(__begin2, estimatedLength, g_cur) \
  __CPROVER_loop_invariant(0 <= __begin2.i && __begin2.i <= __end2.i && __end2.i == self->m_tokens.n && __begin2.n == __end2.i && estimatedLength <= ((unsigned long)__begin2.i << 31)) \
  __CPROVER_decreases(__end2.i - __begin2.i)
#define LOOP_PatternFormatter_PatternFormatterPrivate_format_1 \
  __CPROVER_assigns(__begin2, result, g_cur, g_appends_k, g_last_appended) \
  __CPROVER_loop_invariant(0 <= __begin2.i && __begin2.i <= __end2.i && __end2.i == self->m_tokens.n && __begin2.n == __end2.i && QSTRING_VALID(result) \
                           && g_last_appended < __begin2.i && g_appends_k == ((g_k < __begin2.i && g_cond_k) ? 1 : 0)) \
  __CPROVER_decreases(__end2.i - __begin2.i)
#endif

/* ConditionToken::checkCondition: no condition -> always; %{if-<type>} ... %{endif} -> exactly the messages of that type */
BOOL ConditionToken_checkCondition(ConditionToken *self, LogMessage *lmsg)
__CPROVER_requires(__CPROVER_is_fresh(self, sizeof(*self)) && IS_BOOL(self->m_hasCondition) && QTMSGTYPE_VALID(self->m_condition) && __CPROVER_is_fresh(lmsg, sizeof(*lmsg)) && QTMSGTYPE_VALID(lmsg->m_type))
__CPROVER_assigns()
__CPROVER_ensures(__CPROVER_return_value == (!self->m_hasCondition || lmsg->m_type == self->m_condition));
