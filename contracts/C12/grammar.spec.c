// C12 (4/4) -- parsePattern() follows the documented placeholder grammar (docs/api/formatters.md): ONE STEP of the tokeniser, for every
// pattern, every scan position and every parser state, does what the grammar prescribes for the text at that position:
//   * an ordinary character goes to the pending literal text unchanged; "%%" contributes one '%'; a '%' that starts nothing is literal;
//   * "%{" ... up to the FIRST '}' is a placeholder; before it the pending literal text is emitted as one LiteralToken (text unchanged);
//     without any '}' the '%' is literal text;
//   * the part after the LAST ':' of a placeholder is a format spec iff parseFormatSpec() recognises it (then it is cut off the name);
//   * the name selects the token class by the documented table (type, line, file, shortfile [base], function, func, category,
//     time [format], threadid, qthreadptr, message; if-<type> / endif switch the condition; anything else is an attribute,
//     name?[N][,M] an optional one with remove-before N / remove-after M);
//   * every emitted token carries the condition in force (if any) and the format spec (if any); the scan resumes after the '}'.
// The step is the BODY OF THE REAL LOOP, extracted mechanically (//@ loopbody: vf/lower.py extract_loop_body) -- parsePattern() is
// "while (guard) body", so the whole tokenisation is the iteration of this step (induction over iterations: argument, not a CBMC proof;
// termination and safety of the whole loop are proved in contracts/C14/pattern.spec.c).
// Texts are slices of the pattern (models/len.h, QS_GRAMMAR): what the code learns about the pattern's content are uninterpreted
// functions of absolute positions, and the contract names the same functions, so the clauses hold for every content.
//@ tus formatters/patternformatter.cpp
//@ lower PatternFormatter::PatternFormatterPrivate::parsePattern
//@ loopbody PatternFormatter_PatternFormatterPrivate_parsePattern 0
//@ lemma lemma_parsePattern_step_literal timeout=1500 fastcanary=1
//@ lemma lemma_parsePattern_step_keyword timeout=1500 fastcanary=1
//@ lemma lemma_parsePattern_step_attribute timeout=1500 fastcanary=1
#define LEN_LIGHT
#define QS_GRAMMAR
/* the documented keywords (their literal identities; a literal the code no longer contains gets a fallback identity from the engine) */
#define QS_KW_KNOWN(lit) ((lit) == LITX_type || (lit) == LITX_line || (lit) == LITX_file || (lit) == LITX_shortfile || (lit) == LITX_shortfile_ || (lit) == LITX_function \
  || (lit) == LITX_func || (lit) == LITX_category || (lit) == LITX_time || (lit) == LITX_time_ || (lit) == LITX_threadid || (lit) == LITX_qthreadptr || (lit) == LITX_message \
  || (lit) == LITX_if_ || (lit) == LITX_endif)
/* K = the longest keyword the text starts with; the text starts with keyword lit iff lit is a prefix of K (static facts about the 15 words) */
#define QS_KW_PREFIX(K, lit) ((K) == (lit) || ((K) == LITX_function && (lit) == LITX_func) || ((K) == LITX_shortfile_ && (lit) == LITX_shortfile) || ((K) == LITX_time_ && (lit) == LITX_time))
#include "contracts/len_part1.h"
typedef struct Token Token;
typedef struct { Token *p; } QSharedPointer_Token;
typedef struct { int n; } QList_QSharedPointer_Token;
/* ghost: the tokens appended to m_tokens during the step, in order */
int g_app_n; Token *g_app0; Token *g_app1;
static inline void QList_QSharedPointer_Token_clear(QList_QSharedPointer_Token *l) { l->n = 0; }
static inline void QList_QSharedPointer_Token_append__QSharedPointer_Token(QList_QSharedPointer_Token *l, QSharedPointer_Token t)
{ __CPROVER_assert(t.p != NULL, "a token that is appended exists"); __CPROVER_assume(l->n < 0x7fffffff); /* A-alloc */ l->n = l->n + 1;
  if (g_app_n == 0) g_app0 = t.p; else if (g_app_n == 1) g_app1 = t.p;
  if (g_app_n < 3) g_app_n = g_app_n + 1; }
//@ ---
/* parseFormatSpec(text) and stringToQtMsgType(text, default) are FUNCTIONS OF THE TEXT (no hidden state): what they compute is proved in
 * contracts/C12/spec.spec.c (docs table) resp. assumed (brace-initialised name table, C12 level note); here only "same text, same answer" */
BOOL __CPROVER_uninterpreted_pfs_has(int id);
unsigned short __CPROVER_uninterpreted_pfs_fill(int id);
int __CPROVER_uninterpreted_pfs_align(int id);
int __CPROVER_uninterpreted_pfs_width(int id);
int __CPROVER_uninterpreted_pfs_mode(int id);
#define ENS_C12_PARSE (__CPROVER_return_value.has == (__CPROVER_uninterpreted_pfs_has(specString.id) != 0) && (!__CPROVER_return_value.has || ( \
   __CPROVER_return_value.v.fill.u == __CPROVER_uninterpreted_pfs_fill(specString.id) && __CPROVER_return_value.v.align == __CPROVER_uninterpreted_pfs_align(specString.id) && \
   __CPROVER_return_value.v.width == __CPROVER_uninterpreted_pfs_width(specString.id) && __CPROVER_return_value.v.truncateMode == __CPROVER_uninterpreted_pfs_mode(specString.id))))
#include "contracts/len_common.h"
BOOL __CPROVER_uninterpreted_msgtype_known(int id);
int __CPROVER_uninterpreted_msgtype(int id);
QtMsgType stringToQtMsgType(QString str, QtMsgType a_default)
__CPROVER_requires(QSTRING_VALID(str) && QTMSGTYPE_VALID(a_default))
__CPROVER_assigns()
__CPROVER_ensures(QTMSGTYPE_VALID(__CPROVER_return_value) && __CPROVER_return_value == ((str.len > 0 && __CPROVER_uninterpreted_msgtype_known(str.id)) ? (QtMsgType)__CPROVER_uninterpreted_msgtype(str.id) : a_default));
#define MSGTYPE_OF(id, len, dflt) (((len) > 0 && __CPROVER_uninterpreted_msgtype_known(id)) ? (QtMsgType)__CPROVER_uninterpreted_msgtype(id) : (dflt))

static inline QSharedPointer_Token QSharedPointer_Token_ctor__FormattedTokenP(FormattedToken *t) { QSharedPointer_Token s; s.p = (Token *)t; return s; }
static inline QSharedPointer_Token QSharedPointer_Token_ctor__LiteralTokenP(LiteralToken *t) { QSharedPointer_Token s; s.p = (Token *)t; return s; }
/* new T: one object per class (a step creates at most one token of a class), arbitrary before its constructor runs */
#define POOL(T) T pool_##T;
POOL(LiteralToken) POOL(TypeToken) POOL(LineToken) POOL(FileToken) POOL(ShortFileToken) POOL(FunctionToken) POOL(CategoryToken) POOL(TimeToken)
POOL(ThreadIdToken) POOL(QThreadPtrToken) POOL(MessageToken) POOL(AttributeToken)
#define VERIF_NEW(T) ({ __CPROVER_havoc_object(&pool_##T); &pool_##T; })
#define POOLS pool_LiteralToken, pool_TypeToken, pool_LineToken, pool_FileToken, pool_ShortFileToken, pool_FunctionToken, pool_CategoryToken, pool_TimeToken, \
  pool_ThreadIdToken, pool_QThreadPtrToken, pool_MessageToken, pool_AttributeToken

/* ---------------------------------------------------------------- the grammar, over the pattern P = self->m_pattern, scan position p */
#define COND_IS(t, hc, cc) ((t)->_base.m_hasCondition == (hc) && (!(hc) || (t)->_base.m_condition == (cc)))
#define SPEC_DEFAULT(sp) ((sp).fill.u == 32 && (sp).align == AL_NONE && (sp).width == 0 && (sp).truncateMode == TM_NONE)
#define SLID(off, len) ((len) > 0 ? __CPROVER_uninterpreted_mid_id(pid, (off), (len)) : 0)
#define TEXT_IS(s, off, n) ((s).len == (n) && (s).id == SLID(off, n))
/* trimmed(P[off, off+n)) */
#define TRIMMED_OF(s, off, n) ((n) <= 0 ? (s).len == 0 : ((s).len <= (n) && ((s).len == 0 || (s).id == __CPROVER_uninterpreted_trim(SLID(off, n)))))
static inline int first_in(int pid, unsigned short ch, int from, int end)        /* first ch in P[from, end), absolute, or -1 */
{ if (from >= end) return -1; int a = __CPROVER_uninterpreted_first(pid, ch, from); return (a != -1 && a < end) ? a : -1; }
static inline int to_int_of(int pid, int off, int n)                             /* QString::toInt of P[off, off+n): 0 when not a number */
{ return (n > 0 && __CPROVER_uninterpreted_to_int_ok(SLID(off, n))) ? __CPROVER_uninterpreted_to_int(SLID(off, n)) : 0; }
#define KWP(lit) QS_KW_PREFIX(kw, lit)
#define NAME_EQ(lit, n) (n_len == (n) && KWP(lit))
#define NAME_STARTS(lit, n) (n_len >= (n) && KWP(lit))

/* ONE STEP of the tokeniser = the body of parsePattern()'s loop, for every pattern, position and parser state.  The three lemmas below
 * split the input space (only to let the proofs run in parallel): the text at the scan position is not "%{" / is "%{" followed by a
 * documented keyword / is "%{" followed by anything else; together they cover every input. */
enum { CASE_LITERAL = 0, CASE_KEYWORD = 1, CASE_ATTRIBUTE = 2 };
static inline void step_lemma(int which)
{
    PatternFormatter_PatternFormatterPrivate priv; PatternFormatter_PatternFormatterPrivate *self = &priv;
    int pos; QString literalText; QtMsgType currentCondition; BOOL hasCondition;
    /* loop guard and loop invariant (the invariant is re-established: asserted below; initially pos = 0, empty literal, no condition) */
    LEMMA_REQUIRES(QSTRING_VALID(self->m_pattern) && self->m_pattern.src == 0 && self->m_pattern.off == 0 && self->m_pattern.id != 0 && self->m_tokens.n >= 0);
    LEMMA_REQUIRES(0 <= pos && pos < self->m_pattern.len && QSTRING_VALID(literalText) && IS_BOOL(hasCondition) && QTMSGTYPE_VALID(currentCondition));
    {
        const BOOL ph = pos < self->m_pattern.len - 1 && __CPROVER_uninterpreted_unit(self->m_pattern.id, pos) == 37 && __CPROVER_uninterpreted_unit(self->m_pattern.id, pos + 1) == 123;
        const int k = __CPROVER_uninterpreted_kw(self->m_pattern.id, pos + 2);
        LEMMA_REQUIRES(which == CASE_LITERAL ? !ph : which == CASE_KEYWORD ? (ph && k != 0) : (ph && k == 0));
    }
    g_app_n = 0; g_app0 = NULL; g_app1 = NULL;
    const int pid = self->m_pattern.id, plen = self->m_pattern.len, p0 = pos, hc0 = hasCondition; const QtMsgType cc0 = currentCondition;
    const QString lit0 = literalText; const QString pat0 = self->m_pattern; const int ntok_list0 = self->m_tokens.n;

    PatternFormatter_PatternFormatterPrivate_parsePattern_loop0_body(self, &pos, &literalText, &currentCondition, &hasCondition);

    /* invariant re-established, the scan advances, the pattern is not touched, the list grows by what was emitted */
    __CPROVER_assert(pos > p0 && pos <= plen && QSTRING_VALID(literalText) && IS_BOOL(hasCondition) && QTMSGTYPE_VALID(currentCondition), "C12 grammar: loop invariant re-established and the scan position advances");
    __CPROVER_assert(self->m_pattern.id == pat0.id && self->m_pattern.len == pat0.len && self->m_pattern.src == 0 && self->m_pattern.off == 0, "C12 grammar: the pattern is not modified");
    __CPROVER_assert(g_app_n <= 2 && self->m_tokens.n == ntok_list0 + g_app_n, "C12 grammar: the token list grows by exactly the tokens emitted in this step");
    const unsigned short u0 = __CPROVER_uninterpreted_unit(pid, p0);
    const unsigned short u1 = p0 < plen - 1 ? __CPROVER_uninterpreted_unit(pid, p0 + 1) : 0;
    const BOOL is_ph = p0 < plen - 1 && u0 == 37 && u1 == 123;       /* "%{" */
    const BOOL is_esc = p0 < plen - 1 && u0 == 37 && u1 == 37;       /* "%%" */
    const BOOL lit_same_cond = hasCondition == hc0 && currentCondition == cc0;
    const int lit0id = lit0.len == 0 ? 0 : lit0.id;
    if (!is_ph && !is_esc) {
        /* ordinary character / a '%' that starts nothing: literal, unchanged */
        __CPROVER_assert(pos == p0 + 1 && g_app_n == 0 && lit_same_cond, "C12 grammar: an ordinary character consumes one position, emits no token, keeps the condition");
        __CPROVER_assert(literalText.len == lit0.len + 1 && literalText.id == __CPROVER_uninterpreted_cat(lit0id, u0), "C12 grammar: an ordinary character is appended to the pending literal text unchanged");
    } else if (is_esc) {
        __CPROVER_assert(pos == p0 + 2 && g_app_n == 0 && lit_same_cond, "C12 grammar: %% consumes two positions, emits no token, keeps the condition");
        __CPROVER_assert(literalText.len == lit0.len + 1 && literalText.id == __CPROVER_uninterpreted_cat(lit0id, 37), "C12 grammar: %% contributes exactly one '%' to the pending literal text");
    } else {
        const BOOL flush = lit0.len > 0;
        const int ntok0 = flush ? 1 : 0;
        if (flush) {
            __CPROVER_assert(g_app_n >= 1 && g_app0 == (Token *)&pool_LiteralToken, "C12 grammar: pending literal text is emitted as a LiteralToken before the placeholder");
            __CPROVER_assert(pool_LiteralToken.m_text.len == lit0.len && pool_LiteralToken.m_text.id == lit0.id, "C12 grammar: the LiteralToken carries the pending literal text unchanged");
            __CPROVER_assert(COND_IS(&pool_LiteralToken._base, hc0, cc0) && SPEC_DEFAULT(pool_LiteralToken._base.m_spec), "C12 grammar: the LiteralToken carries the condition in force and no format spec");
        }
        const int close = first_in(pid, 125, p0 + 2, plen);          /* the first '}' after "%{" */
        if (close == -1) {
            __CPROVER_assert(pos == p0 + 1 && g_app_n == ntok0 && lit_same_cond, "C12 grammar: %{ without closing brace consumes the '%' only and emits no placeholder token");
            __CPROVER_assert(literalText.len == 1 && literalText.id == __CPROVER_uninterpreted_cat(0, 37), "C12 grammar: %{ without closing brace: the '%' is literal text");
        } else {
            __CPROVER_assert(pos == close + 1 && literalText.len == 0, "C12 grammar: the scan resumes after the first '}' with no pending literal text");
            const int s_off = p0 + 2, s_len = close - p0 - 2;         /* placeholder = P[s_off, s_off + s_len) */
            const int lcolon = s_len > 0 ? __CPROVER_uninterpreted_last(pid, 58, s_off, s_off + s_len) : -1;     /* its last ':' */
            const BOOL has_colon = lcolon != -1 && lcolon - s_off < s_len - 1;                                    /* ... with something after it */
            const int ps_id = has_colon ? SLID(lcolon + 1, s_off + s_len - lcolon - 1) : 0;
            const BOOL has_spec = has_colon && __CPROVER_uninterpreted_pfs_has(ps_id) != 0;                       /* ... that parseFormatSpec recognises */
            const int n_len = has_spec ? lcolon - s_off : s_len;     /* the name = P[s_off, s_off + n_len) */
            const int kw = __CPROVER_uninterpreted_kw(pid, s_off);
            const BOOL is_if = NAME_STARTS(LITX_if_, 3), is_endif = NAME_EQ(LITX_endif, 5);
            if (is_if) {
                const QtMsgType t = MSGTYPE_OF(SLID(s_off + 3, n_len - 3), n_len - 3, E_QtMsgType_QtDebugMsg);
                __CPROVER_assert(g_app_n == ntok0 && hasCondition == 1 && currentCondition == t, "C12 grammar: %{if-<type>} emits no token and puts that type's condition in force (unknown names: debug)");
            } else if (is_endif) {
                __CPROVER_assert(g_app_n == ntok0 && hasCondition == 0 && currentCondition == cc0, "C12 grammar: %{endif} emits no token and ends the condition");
            } else {
                /* documented table: name -> token class */
                Token *exp = NAME_EQ(LITX_type, 4) ? (Token *)&pool_TypeToken : NAME_EQ(LITX_line, 4) ? (Token *)&pool_LineToken : NAME_EQ(LITX_file, 4) ? (Token *)&pool_FileToken
                  : (NAME_EQ(LITX_shortfile, 9) || NAME_STARTS(LITX_shortfile_, 10)) ? (Token *)&pool_ShortFileToken
                  : (NAME_EQ(LITX_function, 8) || NAME_EQ(LITX_func, 4)) ? (Token *)&pool_FunctionToken : NAME_EQ(LITX_category, 8) ? (Token *)&pool_CategoryToken
                  : (NAME_EQ(LITX_time, 4) || NAME_STARTS(LITX_time_, 5)) ? (Token *)&pool_TimeToken : NAME_EQ(LITX_threadid, 8) ? (Token *)&pool_ThreadIdToken
                  : NAME_EQ(LITX_qthreadptr, 10) ? (Token *)&pool_QThreadPtrToken : NAME_EQ(LITX_message, 7) ? (Token *)&pool_MessageToken : (Token *)&pool_AttributeToken;
                Token *got = flush ? g_app1 : g_app0;
                __CPROVER_assert(g_app_n == ntok0 + 1 && lit_same_cond, "C12 grammar: a placeholder emits exactly one token and leaves the condition in force unchanged");
                __CPROVER_assert(got == exp, "C12 grammar: the placeholder name selects the documented token class");
                if (g_app_n == ntok0 + 1 && got == exp) {
                    FormattedToken *ft = (FormattedToken *)exp;
                    __CPROVER_assert(COND_IS(ft, hc0, cc0), "C12 grammar: the token carries the condition in force (none outside %{if-...})");
                    if (has_spec)
                        __CPROVER_assert(ft->m_spec.fill.u == __CPROVER_uninterpreted_pfs_fill(ps_id) && ft->m_spec.align == __CPROVER_uninterpreted_pfs_align(ps_id)
                                         && ft->m_spec.width == __CPROVER_uninterpreted_pfs_width(ps_id) && ft->m_spec.truncateMode == __CPROVER_uninterpreted_pfs_mode(ps_id),
                                         "C12 grammar: the token carries the format spec parsed from the text after the last ':'");
                    else
                        __CPROVER_assert(SPEC_DEFAULT(ft->m_spec), "C12 grammar: without a recognised format spec the token has none");
                    if (exp == (Token *)&pool_FunctionToken)
                        __CPROVER_assert(pool_FunctionToken.m_cleanup == (NAME_EQ(LITX_func, 4) ? 1 : 0), "C12 grammar: %{func} cleans the signature up, %{function} does not");
                    if (exp == (Token *)&pool_ShortFileToken)
                        __CPROVER_assert(NAME_STARTS(LITX_shortfile_, 10) ? TRIMMED_OF(pool_ShortFileToken.m_baseDir, s_off + 10, n_len - 10) : pool_ShortFileToken.m_baseDir.len == 0,
                                         "C12 grammar: %{shortfile <base>} carries the trimmed base directory, %{shortfile} none");
                    if (exp == (Token *)&pool_TimeToken)
                        __CPROVER_assert(NAME_STARTS(LITX_time_, 5) ? TRIMMED_OF(pool_TimeToken.m_format, s_off + 5, n_len - 5) : pool_TimeToken.m_format.len == 0,
                                         "C12 grammar: %{time <format>} carries the trimmed format, %{time} none");
                    if (exp == (Token *)&pool_AttributeToken) {
                        const int qpos = first_in(pid, 63, s_off, s_off + n_len);            /* first '?' of the name */
                        if (qpos == -1) {
                            __CPROVER_assert(TEXT_IS(pool_AttributeToken.m_attributeName, s_off, n_len) && pool_AttributeToken.m_optional == 0
                                             && pool_AttributeToken.m_removeBefore == 0 && pool_AttributeToken.m_removeAfter == 0,
                                             "C12 grammar: %{name} is a mandatory attribute with that very name");
                        } else {
                            const int suf_off = qpos + 1, suf_len = s_off + n_len - qpos - 1;
                            const int comma = first_in(pid, 44, suf_off, suf_off + suf_len);
                            const int rb = comma == -1 ? to_int_of(pid, suf_off, suf_len) : (comma > suf_off ? to_int_of(pid, suf_off, comma - suf_off) : 0);
                            const int ra = comma == -1 ? 0 : to_int_of(pid, comma + 1, suf_off + suf_len - comma - 1);
                            __CPROVER_assert(TEXT_IS(pool_AttributeToken.m_attributeName, s_off, qpos - s_off) && pool_AttributeToken.m_optional == 1,
                                             "C12 grammar: %{name?...} is an optional attribute named by the text before the '?'");
                            __CPROVER_assert(pool_AttributeToken.m_removeBefore == rb && pool_AttributeToken.m_removeAfter == ra,
                                             "C12 grammar: %{name?N,M}: remove-before N (text before the comma, or the whole suffix), remove-after M (text after the comma)");
                        }
                    }
                }
            }
        }
    }
}
void lemma_parsePattern_step_literal(void) { step_lemma(CASE_LITERAL); LEMMA_END; }
void lemma_parsePattern_step_keyword(void) { step_lemma(CASE_KEYWORD); LEMMA_END; }
void lemma_parsePattern_step_attribute(void) { step_lemma(CASE_ATTRIBUTE); LEMMA_END; }
