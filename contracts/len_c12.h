/* C12 clauses for the contracts of contracts/len_common.h (include BEFORE it, in part 2).
 * The postconditions are written from docs/api/formatters.md ("Fixed-Width Formatting", "Custom Attributes"), not from the code. */
#ifndef VERIF_LEN_C12_H
#define VERIF_LEN_C12_H
/* ---- the format specification  [fill][align][width][!]  (fill: any single character; align: < > ^; width: decimal; !: truncate) ---- */
#define ISAL(u) ((u) == 60 || (u) == 62 || (u) == 94)
#define ALOF(u) ((u) == 60 ? AL_LEFT : (u) == 62 ? AL_RIGHT : AL_CENTER)
#define PS_BANG(s) ((s).len > 0 && (s).cl == 33)
#define PS_L(s) ((s).len - (PS_BANG(s) ? 1 : 0))                         /* length without the '!' */
#define PS_BODYID(s) (PS_BANG(s) ? __CPROVER_uninterpreted_mid_id((s).id, 0, PS_L(s)) : (s).id)
#define PS_FA(s) (PS_L(s) >= 2 && ISAL((s).c1))                          /* fill + align: the SECOND character is an alignment character */
#define PS_A(s) (!PS_FA(s) && PS_L(s) >= 1 && ISAL((s).c0))              /* align only */
#define PS_POS(s) (PS_FA(s) ? 2 : 1)
#define PS_WID(s) ((PS_FA(s) || PS_A(s)) ? __CPROVER_uninterpreted_mid_id(PS_BODYID(s), PS_POS(s), PS_L(s) - PS_POS(s)) : PS_BODYID(s))   /* the width digits */
#define PS_WOK(s) (__CPROVER_uninterpreted_to_int_ok(PS_WID(s)) != 0 && __CPROVER_uninterpreted_to_int(PS_WID(s)) > 0)
/* a spec is recognised iff it has an alignment followed by a positive width, or is "<positive width>!" */
#define PS_HAS(s) (PS_L(s) >= 1 && ((PS_FA(s) || PS_A(s)) ? (PS_POS(s) < PS_L(s) && PS_WOK(s)) : (PS_BANG(s) && PS_WOK(s))))
#define ENS_C12_PARSE \
  ((__CPROVER_return_value.has != 0) == PS_HAS(specString) && \
   (!PS_HAS(specString) || ( \
      __CPROVER_return_value.v.fill.u == (PS_FA(specString) ? specString.c0 : 32) && \
      __CPROVER_return_value.v.align == (PS_FA(specString) ? ALOF(specString.c1) : PS_A(specString) ? ALOF(specString.c0) : AL_NONE) && \
      __CPROVER_return_value.v.width == __CPROVER_uninterpreted_to_int(PS_WID(specString)) && \
      __CPROVER_return_value.v.truncateMode == (PS_BANG(specString) ? (PS_FA(specString) ? TM_TRUNCATE : TM_TRUNCATE_ONLY) : TM_NONE))))

/* ---- padding / truncation table (docs: "Padding Only", "Truncation Only", "Truncation AND Padding") ---- */
#define PD_TRUNC(sp, n) ((sp).width > 0 && (n) > (sp).width && ((sp).truncateMode == TM_TRUNCATE_ONLY || ((sp).truncateMode == TM_TRUNCATE && (sp).align != AL_NONE)))
#define PD_CUT(sp, n) ((PD_TRUNC(sp, n) && (sp).align == AL_RIGHT) ? (n) - (sp).width : 0)          /* '>' keeps the LAST width characters */
#define PD_KEEP(sp, n) (PD_TRUNC(sp, n) ? (sp).width : (n))
#define PD_PADS(sp, n) ((sp).width > 0 && (sp).align != AL_NONE && (sp).truncateMode != TM_TRUNCATE_ONLY && PD_KEEP(sp, n) < (sp).width)
#define PD_PAD(sp, n) (PD_PADS(sp, n) ? (sp).width - PD_KEEP(sp, n) : 0)
#define PD_LEFT(sp, n) ((sp).align == AL_RIGHT ? PD_PAD(sp, n) : (sp).align == AL_CENTER ? PD_PAD(sp, n) / 2 : 0)
#define PD_LEN(sp, n) (PD_KEEP(sp, n) + PD_PAD(sp, n))
/* where character w of the value ends up (-1: truncated away, or there is no such character) */
#define PD_WPOS(sp, n, w) (((w) >= 0 && (w) >= PD_CUT(sp, n) && (w) < PD_CUT(sp, n) + PD_KEEP(sp, n)) ? (w) - PD_CUT(sp, n) + PD_LEFT(sp, n) : -1)
#define ENS_C12_PAD \
  (__CPROVER_return_value.len == PD_LEN(self->m_spec, value.len) && __CPROVER_return_value.wpos == PD_WPOS(self->m_spec, value.len, value.wpos) && \
   (!(PD_PAD(self->m_spec, value.len) >= 1 && self->m_spec.align == AL_RIGHT) || __CPROVER_return_value.c0 == self->m_spec.fill.u) && \
   (!(PD_PAD(self->m_spec, value.len) >= 1 && (self->m_spec.align == AL_LEFT || self->m_spec.align == AL_CENTER)) || __CPROVER_return_value.cl == self->m_spec.fill.u) && \
   (!(PD_PAD(self->m_spec, value.len) >= 2 && self->m_spec.align == AL_CENTER) || __CPROVER_return_value.c0 == self->m_spec.fill.u) && \
   (!(PD_PAD(self->m_spec, value.len) == 0 && PD_CUT(self->m_spec, value.len) == 0 && value.len >= 1) || __CPROVER_return_value.c0 == value.c0) && \
   (!(PD_PAD(self->m_spec, value.len) == 0 && !PD_TRUNC(self->m_spec, value.len)) || (__CPROVER_return_value.tail == value.tail && (value.len < 1 || __CPROVER_return_value.cl == value.cl))))
#endif
