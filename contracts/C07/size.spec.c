// C07 -- no log file outgrows the size limit; records are never split (DESIGN 3, C07)
//@ tus sinks/rotatingfilesink.cpp sinks/filesink.cpp sinks/iodevicesink.cpp
//@ lower RotatingFileSink::send RotatingFileSink::RotatingFileSinkPrivate::init RotatingFileSink::RotatingFileSinkPrivate::rotateIfNeeded
//@ lower RotatingFileSink::RotatingFileSinkPrivate::rotate RotatingFileSink::RotatingFileSinkPrivate::removeOldFiles RotatingFileSink::RotatingFileSinkPrivate::findRotatedFiles
//@ lower RotatingFileSink::RotatingFileSinkPrivate::findNextIndexForDate RotatingFileSink::RotatingFileSinkPrivate::generateRotatedFileName
//@ lower RotatingFileSink::RotatingFileSinkPrivate::checkSizeRotation RotatingFileSink::RotatingFileSinkPrivate::checkDailyRotation RotatingFileSink::RotatingFileSinkPrivate::checkStartupRotation
//@ lower RotatingFileSink::RotatingFileSinkPrivate::baseDir IODeviceSink::send FileSink::file IODeviceSink::device LogMessage::formattedMessage LogMessage::time LogMessage::isFormatted
//@ enforce RotatingFileSink_send timeout=900
//@ enforce RotatingFileSink_RotatingFileSinkPrivate_rotate
//@ enforce RotatingFileSink_RotatingFileSinkPrivate_findNextIndexForDate
//@ enforce RotatingFileSink_RotatingFileSinkPrivate_findRotatedFiles
//@ enforce RotatingFileSink_RotatingFileSinkPrivate_removeOldFiles
#define PROP_C07 1
#include "contracts/fs_part1.h"
//@ ---
#include "contracts/fs_common.h"

/* compression: at ledger level only its frame matters here (its own properties: C08, C10) */
void RotatingFileSink_RotatingFileSinkPrivate_compressFile(Priv *self, QString filePath)
__CPROVER_requires(LEDGER_OK() && LEDGER_RANGE2() && g_gz_exists == 0)
__CPROVER_assigns(g_w, g_new, g_new_is_w, g_gz_exists, g_gz_complete, g_gz_has_all, g_lost, g_removes, g_foreign_touched)
__CPROVER_ensures(LEDGER_OK() && LEDGER_RANGE2() && g_gz_exists == 0);

/* the message as the ledger sees it */
#define FM(m) ((m)->m_formattedMessage.isnull ? (m)->m_message : (m)->m_formattedMessage)
#define MSG_TIED(m) (QSTRING_VALID((m)->m_formattedMessage) && QSTRING_VALID((m)->m_message) && FM(m).tag == T_FORMATTED && FM(m).id == g_msg_fm_id && FM(m).isnull == g_msg_fm_isnull \
    && g_msg_utf8 >= 0 && g_msg_utf8 <= INT_MAXV - 64 && (m)->m_time.jd == g_msg_jd && g_msg_jd > -4000000000LL && g_msg_jd < 4000000000LL)
#define INV7(L) (g_A_size <= (L) || g_A_recs == 1)

/* With a size limit L > 0 and rotation not disabled (N != 1): every file this sink writes is at most L bytes unless it
 * consists of a single record (obligations of the write and rename models), and the record is written whole by ONE write.
 * Stated assumption: the rename of a rotation succeeds (failure: C10) and a UTF-8 locale (A-locale). */
void RotatingFileSink_send(RotatingFileSink *self, LogMessage *lmsg)
__CPROVER_requires(SINK_OK(self) && PRIV_FLAGS(self->d.p) && __CPROVER_is_fresh(lmsg, sizeof(*lmsg)) && MSG_TIED(lmsg) && LEDGER_OK() && LEDGER_RANGE())
__CPROVER_requires(self->d.p->m_maxFileSize > 0 && self->d.p->m_maxFileCount != 1 && g_L == self->d.p->m_maxFileSize)
__CPROVER_requires(INV7(g_L) && g_open == 1 && g_A_exists == 1 && g_gz_exists == 0)
__CPROVER_assigns(LEDGER_GHOSTS, self->d.p->m_initialized, self->d.p->m_currentLogDate)
__CPROVER_ensures(INV7(g_L) && LEDGER_OK() && g_gz_exists == 0)
/* never split: at most one write call, carrying the whole record */
__CPROVER_ensures(g_writes == __CPROVER_old(g_writes) + 1)
__CPROVER_ensures(g_open ==> (g_last_write_ok && g_last_write_len == g_msg_utf8 + 1));


