// C11 -- a fatal message and everything before it reach the log file (DESIGN 3, C11)
//@ tus logger.cpp simplepipeline.cpp sinks/filesink.cpp
//@ lower Logger::processMessage SimplePipeline::flush SimplePipeline::recursiveFlush FileSink::flush Logger::mutex
//@ lower Pipeline::handlers#void__const
//@ enforce Logger_processMessage
//@ enforce SimplePipeline_flush
//@ enforce SimplePipeline_recursiveFlush
//@ lemma lemma_rec_stub_is_own_contract
//@ enforce FileSink_flush
#include "models/ident.h"

/* ---- locks (C02 states their discipline; here only their presence) ---- */
typedef struct { int _m; } QBasicMutex; typedef struct { QBasicMutex _base; } QMutex; typedef struct { int _m; } QRecursiveMutex;
typedef struct { void *m; } QMutexLocker;
static inline QMutexLocker QMutexLocker_ctor__QRecursiveMutexP(QRecursiveMutex *m) { QMutexLocker l; l.m = m; return l; }
static inline QMutexLocker QMutexLocker_ctor__QBasicMutexP(QBasicMutex *m) { QMutexLocker l; l.m = m; return l; }
static inline void QMutexLocker_dtor(QMutexLocker *l) { }
typedef struct { int v; } QAtomicInt; typedef struct { void *p; } QPointer_QThread;

/* ---- ghost: unflushed bytes ---- */
unsigned long long g_process_calls;   /* pipeline runs so far; a flush is stamped with this number: "flushed after the last run" */
int g_async;                       /* the logger's own thread is running (messages are handed to it)                 */

/* ---- handler list: abstract; element kinds observed through dynamicCast at the ghost index g_k ---- */
typedef struct { Handler *p; int idx; } QSharedPointer_Handler;
typedef struct { Sink *p; int idx; } QSharedPointer_Sink;
typedef struct { Pipeline *p; int idx; } QSharedPointer_Pipeline;
typedef struct { int n; } QList_QSharedPointer_Handler;
typedef struct { QList_QSharedPointer_Handler *l; int i; } QList_QSharedPointer_Handler_const_iterator;
typedef QList_QSharedPointer_Handler_const_iterator CIT;
static inline CIT QList_QSharedPointer_Handler_begin_const(QList_QSharedPointer_Handler *l) { CIT it; it.l = l; it.i = 0; return it; }
static inline CIT QList_QSharedPointer_Handler_end_const(QList_QSharedPointer_Handler *l) { CIT it; it.l = l; it.i = l->n; return it; }
static inline BOOL QList_QSharedPointer_Handler_const_iterator_op_ne__QList_QSharedPointer_Handler_const_iterator(CIT a, CIT b) { return a.i != b.i; }
static inline CIT *QList_QSharedPointer_Handler_const_iterator_op_inc(CIT *a) { a->i++; return a; }
Handler g_elem; int nondet_int(void);
static inline QSharedPointer_Handler QList_QSharedPointer_Handler_const_iterator_op_deref(CIT it)
{ __CPROVER_assert(0 <= it.i && it.i < it.l->n, "QList const_iterator dereferenced inside [begin,end)");
  QSharedPointer_Handler h; h.p = nondet_int() ? &g_elem : NULL; h.idx = it.i; return h; }
enum { K_OTHER = 0, K_SINK = 1, K_PIPELINE = 2 };
int g_k, g_kind_k;                              /* arbitrary index and the class of the handler stored there (0 also: null entry) */
unsigned long long g_flush_stamp_k, g_recurse_stamp_k;   /* value of g_process_calls when sink k was flushed / nested pipeline k descended into last */
int g_cast_idx; Sink g_sink_obj; Pipeline g_pipe_obj;
/* dynamicCast<Sink>() / dynamicCast<Pipeline>(): non-null exactly for objects of that class */
static inline QSharedPointer_Sink QSharedPointer_Handler_dynamicCast_QSharedPointer_Sink(QSharedPointer_Handler h)
{ QSharedPointer_Sink s; s.idx = h.idx; int is = (h.idx == g_k) ? (g_kind_k == K_SINK) : (nondet_int() != 0); s.p = (h.p != NULL && is) ? &g_sink_obj : NULL;
  if (h.idx == g_k && g_kind_k == K_SINK) __CPROVER_assume(h.p != NULL);
  g_cast_idx = h.idx; return s; }
static inline BOOL QSharedPointer_Sink_op_tobool(QSharedPointer_Sink s) { return s.p != NULL; }
static inline BOOL QSharedPointer_Pipeline_op_tobool(QSharedPointer_Pipeline s) { return s.p != NULL; }
static inline BOOL QSharedPointer_Sink_isNull(QSharedPointer_Sink s) { return s.p == NULL; }
static inline BOOL QSharedPointer_Pipeline_isNull(QSharedPointer_Pipeline s) { return s.p == NULL; }
static inline Sink *QSharedPointer_Sink_op_arrow(QSharedPointer_Sink s) { return s.p; }
static inline Sink *QSharedPointer_Sink_data(QSharedPointer_Sink s) { return s.p; }
static inline Pipeline *QSharedPointer_Pipeline_data(QSharedPointer_Pipeline s) { return s.p; }
static inline Pipeline *QSharedPointer_Pipeline_op_arrow(QSharedPointer_Pipeline s) { return s.p; }

/* QFile of a FileSink */
typedef struct { int _o; } QObject; typedef struct { QObject _base; int buffered; } QIODevice; typedef struct { QIODevice _base; } QFileDevice; typedef struct { QFileDevice _base; } QFile;
unsigned long long g_qfile_flushes;
typedef struct { QIODevice *p; } QSharedPointer_QIODevice;
//@ ---
static inline QSharedPointer_Pipeline QSharedPointer_Handler_dynamicCast_QSharedPointer_Pipeline(QSharedPointer_Handler h)
{ QSharedPointer_Pipeline s; s.idx = h.idx; int is = (h.idx == g_k) ? (g_kind_k == K_PIPELINE) : (nondet_int() != 0); s.p = (h.p != NULL && is) ? &g_pipe_obj : NULL;
  if (h.idx == g_k && g_kind_k == K_PIPELINE) __CPROVER_assume(h.p != NULL);
  if (s.p != NULL) __CPROVER_assume(g_pipe_obj.m_handlers.n >= 0);
  g_cast_idx = h.idx; return s; }
QFile g_the_file;
QFile *FileSink_file(FileSink *self) __CPROVER_assigns() __CPROVER_ensures(__CPROVER_return_value == &g_the_file);
BOOL QFileDevice_flush(QFileDevice *f)
__CPROVER_requires(f == &g_the_file._base)
__CPROVER_assigns(g_the_file._base._base.buffered, g_qfile_flushes)
__CPROVER_ensures(g_the_file._base._base.buffered == 0 && g_qfile_flushes == __CPROVER_old(g_qfile_flushes) + 1 && IS_BOOL(__CPROVER_return_value));

/* virtual Sink::flush() of a list element ("any sink") */
BOOL Sink_flush(Sink *self)
__CPROVER_requires(self == &g_sink_obj)
__CPROVER_assigns(g_flush_stamp_k)
__CPROVER_ensures(g_flush_stamp_k == (g_cast_idx == g_k ? g_process_calls : __CPROVER_old(g_flush_stamp_k)) && IS_BOOL(__CPROVER_return_value));

/* the pipeline run and the own-thread state ("any pipeline") */
BOOL OwnThreadHandler_SimplePipeline_process(OwnThreadHandler_SimplePipeline *self, LogMessage *lmsg)
__CPROVER_assigns(g_process_calls)
__CPROVER_ensures(g_process_calls == __CPROVER_old(g_process_calls) + 1 && __CPROVER_return_value == 1);
BOOL OwnThreadHandler_SimplePipeline_ownThreadIsRunning(OwnThreadHandler_SimplePipeline *self)
__CPROVER_assigns()
__CPROVER_ensures(__CPROVER_return_value == g_async);
void LogMessage_ctor__QtMsgType_QMessageLogContext_QString(LogMessage *self, QtMsgType type, QMessageLogContext context, QString message)
__CPROVER_assigns(*self);

/* FileSink::flush(): the file's stream buffer is written out */
BOOL FileSink_flush(FileSink *self)
__CPROVER_requires(__CPROVER_is_fresh(self, sizeof(*self)))
__CPROVER_assigns(g_the_file._base._base.buffered, g_qfile_flushes)
__CPROVER_ensures(g_the_file._base._base.buffered == 0 && g_qfile_flushes == __CPROVER_old(g_qfile_flushes) + 1);

/* recursiveFlush(pipeline): every sink of the list is flushed, every nested pipeline is descended into (where, by this same
 * contract, ITS sinks are flushed and ITS nested pipelines descended into: induction on the nesting depth) */
#define STAMPS_KEPT_OR_NOW(o1, o2) ((g_flush_stamp_k == (o1) || g_flush_stamp_k == g_process_calls) && (g_recurse_stamp_k == (o2) || g_recurse_stamp_k == g_process_calls))
#define RF_CONTRACT(PTR_OK) \
__CPROVER_requires(PTR_OK && pipeline->m_handlers.n >= 0 && g_k >= 0) \
__CPROVER_assigns(g_flush_stamp_k, g_recurse_stamp_k, g_cast_idx) \
__CPROVER_ensures(STAMPS_KEPT_OR_NOW(__CPROVER_old(g_flush_stamp_k), __CPROVER_old(g_recurse_stamp_k))) \
__CPROVER_ensures((g_k < pipeline->m_handlers.n && g_kind_k == K_SINK) ==> g_flush_stamp_k == g_process_calls) \
__CPROVER_ensures((g_k < pipeline->m_handlers.n && g_kind_k == K_PIPELINE) ==> g_recurse_stamp_k == g_process_calls)
void SimplePipeline_recursiveFlush(Pipeline *pipeline)
RF_CONTRACT(__CPROVER_is_fresh(pipeline, sizeof(*pipeline)));
/* the self-recursive call (lowered to this stub): the function's OWN contract, applied to the nested pipeline object, plus the ghost
 * record of the call itself ("list element k, which the cast just produced, was descended into") */
void SimplePipeline_recursiveFlush__rec(Pipeline *pipeline)
RF_CONTRACT(pipeline == &g_pipe_obj)
__CPROVER_ensures(__CPROVER_old(g_cast_idx) == g_k ==> g_recurse_stamp_k == g_process_calls);
/* the stub demands nothing more and promises nothing more about the nested list than the proved contract does */
void lemma_rec_stub_is_own_contract(void)
{
    Pipeline *p = malloc(sizeof(*p)); LEMMA_REQUIRES(p != 0 && p->m_handlers.n >= 0 && g_k >= 0);
    unsigned long long f0 = g_flush_stamp_k, r0 = g_recurse_stamp_k;
    SimplePipeline_recursiveFlush(p);
    __CPROVER_assert(STAMPS_KEPT_OR_NOW(f0, r0), "own contract gives the stub's frame clause");
    __CPROVER_assert(!(g_k < p->m_handlers.n && g_kind_k == K_SINK) || g_flush_stamp_k == g_process_calls, "own contract gives the stub's sink clause");
    __CPROVER_assert(!(g_k < p->m_handlers.n && g_kind_k == K_PIPELINE) || g_recurse_stamp_k == g_process_calls, "own contract gives the stub's nested-pipeline clause");
    LEMMA_END;
}
#if defined(LOOPKIND_SimplePipeline_recursiveFlush_0_range_for)
#define LOOP_SimplePipeline_recursiveFlush_0 \
  __CPROVER_assigns(__begin1.i, g_flush_stamp_k, g_recurse_stamp_k, g_cast_idx) \
  __CPROVER_loop_invariant(__begin1.l == &pipeline->m_handlers && __end1.l == __begin1.l && __end1.i == pipeline->m_handlers.n && 0 <= __begin1.i && __begin1.i <= __end1.i) \
  __CPROVER_loop_invariant(STAMPS_KEPT_OR_NOW(__CPROVER_loop_entry(g_flush_stamp_k), __CPROVER_loop_entry(g_recurse_stamp_k))) \
  __CPROVER_loop_invariant((__begin1.i > g_k && g_kind_k == K_SINK) ==> g_flush_stamp_k == g_process_calls) \
  __CPROVER_loop_invariant((__begin1.i > g_k && g_kind_k == K_PIPELINE) ==> g_recurse_stamp_k == g_process_calls) \
  __CPROVER_decreases(__end1.i - __begin1.i)
#endif

/* flush(): the whole tree below this pipeline */
void SimplePipeline_flush(SimplePipeline *self)
__CPROVER_requires(__CPROVER_is_fresh(self, sizeof(*self)) && self->_base._base.m_handlers.n >= 0 && g_k >= 0)
__CPROVER_assigns(g_flush_stamp_k, g_recurse_stamp_k, g_cast_idx)
__CPROVER_ensures((g_k < self->_base._base.m_handlers.n && g_kind_k == K_SINK) ==> g_flush_stamp_k == g_process_calls)
__CPROVER_ensures((g_k < self->_base._base.m_handlers.n && g_kind_k == K_PIPELINE) ==> g_recurse_stamp_k == g_process_calls);

/* THE PROPERTY: when a fatal message has been processed synchronously, every sink of the logger (arbitrary k; nested ones by
 * the descent) has been flushed AFTER that pipeline run and before the handler returns -- Qt aborts right after */
#define LH(self) ((self)->_base._base._base._base.m_handlers)
void Logger_processMessage(Logger *self, QtMsgType type, QMessageLogContext context, QString message)
__CPROVER_requires(__CPROVER_is_fresh(self, sizeof(*self)) && QTMSGTYPE_VALID(type) && IS_BOOL(g_async) && LH(self).n >= 0 && g_k >= 0)
__CPROVER_assigns(g_process_calls, g_flush_stamp_k, g_recurse_stamp_k, g_cast_idx)
__CPROVER_ensures(g_process_calls == __CPROVER_old(g_process_calls) + 1)                                  /* exactly one pipeline run */
__CPROVER_ensures((type == QtFatalMsg && !g_async && g_k < LH(self).n && g_kind_k == K_SINK) ==> g_flush_stamp_k == g_process_calls)
__CPROVER_ensures((type == QtFatalMsg && !g_async && g_k < LH(self).n && g_kind_k == K_PIPELINE) ==> g_recurse_stamp_k == g_process_calls);
