//@ tus sinks/rotatingfilesink.cpp sinks/filesink.cpp sinks/iodevicesink.cpp
//@ lower RotatingFileSink::send RotatingFileSink::RotatingFileSinkPrivate::init RotatingFileSink::RotatingFileSinkPrivate::rotateIfNeeded
//@ lower RotatingFileSink::RotatingFileSinkPrivate::rotate RotatingFileSink::RotatingFileSinkPrivate::removeOldFiles RotatingFileSink::RotatingFileSinkPrivate::findRotatedFiles
//@ lower RotatingFileSink::RotatingFileSinkPrivate::compressFile RotatingFileSink::RotatingFileSinkPrivate::findNextIndexForDate RotatingFileSink::RotatingFileSinkPrivate::generateRotatedFileName
//@ lower RotatingFileSink::RotatingFileSinkPrivate::checkSizeRotation RotatingFileSink::RotatingFileSinkPrivate::checkDailyRotation RotatingFileSink::RotatingFileSinkPrivate::checkStartupRotation
//@ lower RotatingFileSink::RotatingFileSinkPrivate::baseDir IODeviceSink::send FileSink::FileSink FileSink::flush FileSink::file calculateCRC32
//@ lower RotatingFileSink::RotatingFileSinkPrivate::RotatingFileSinkPrivate RotatingFileSink::RotatingFileSink
#include "models/ident.h"
//@ ---
