// C05 -- rotation never loses, duplicates, reorders or splits a record (DESIGN 3, C05)
//@ tus sinks/rotatingfilesink.cpp sinks/filesink.cpp sinks/iodevicesink.cpp
//@ lower RotatingFileSink::send RotatingFileSink::RotatingFileSinkPrivate::init RotatingFileSink::RotatingFileSinkPrivate::rotateIfNeeded
//@ lower RotatingFileSink::RotatingFileSinkPrivate::rotate RotatingFileSink::RotatingFileSinkPrivate::removeOldFiles RotatingFileSink::RotatingFileSinkPrivate::findRotatedFiles
//@ lower RotatingFileSink::RotatingFileSinkPrivate::findNextIndexForDate RotatingFileSink::RotatingFileSinkPrivate::generateRotatedFileName
//@ lower RotatingFileSink::RotatingFileSinkPrivate::checkSizeRotation RotatingFileSink::RotatingFileSinkPrivate::checkDailyRotation RotatingFileSink::RotatingFileSinkPrivate::checkStartupRotation
//@ lower RotatingFileSink::RotatingFileSinkPrivate::baseDir IODeviceSink::send FileSink::file IODeviceSink::device LogMessage::formattedMessage LogMessage::time LogMessage::isFormatted
//@ enforce RotatingFileSink_send timeout=900
//@ enforce RotatingFileSink_RotatingFileSinkPrivate_rotate timeout=900
//@ enforce RotatingFileSink_RotatingFileSinkPrivate_findNextIndexForDate
//@ enforce RotatingFileSink_RotatingFileSinkPrivate_findRotatedFiles
//@ enforce RotatingFileSink_RotatingFileSinkPrivate_removeOldFiles
#define PROP_C05 1
#define FS_RENAME_MAY_FAIL 1          /* the rename of a rotation may be refused: the record must then still be appended, nothing lost */
#include "contracts/fs_part1.h"
//@ ---
#include "contracts/fs_common.h"
#include "contracts/fs_msg.h"

/* Every send appends exactly ONE record -- the local-8-bit bytes of formattedMessage() followed by exactly one newline, in one
 * write -- as the LAST record of the active file (write model), after any rotation; a rotation moves the whole active file to
 * a new, newest rotated file (rename model) and reopens in append mode; no record is destroyed (g_lost: truncating open, removal
 * of the active file, overwritten .gz, removal of the uncompressed original before its .gz is complete); no foreign file is
 * touched. Whole files removed by retention are the property's stated exception.  Stated assumption: the file is open. */
void RotatingFileSink_send(RotatingFileSink *self, LogMessage *lmsg)
__CPROVER_requires(SINK_OK(self) && PRIV_FLAGS(self->d.p) && __CPROVER_is_fresh(lmsg, sizeof(*lmsg)) && MSG_TIED(lmsg) && LEDGER_OK() && LEDGER_RANGE())
__CPROVER_requires(g_L == self->d.p->m_maxFileSize && g_open == 1 && g_A_exists == 1 && g_gz_exists == 0 && IS_BOOL(g_clock_frozen))
__CPROVER_assigns(LEDGER_GHOSTS, PRIV_STATE(self->d.p))
__CPROVER_ensures(LEDGER_OK() && g_gz_exists == 0)
__CPROVER_ensures(g_writes == __CPROVER_old(g_writes) + 1 && g_W == __CPROVER_old(g_W) + 1)          /* exactly one record, one write */
__CPROVER_ensures(g_last_write_ok && g_last_write_len == g_msg_utf8 + 1)                              /* this message, whole, one newline */
__CPROVER_ensures(g_A_recs >= 1 && g_open == 1)                                                       /* it is in the active file */
__CPROVER_ensures(g_lost == __CPROVER_old(g_lost))                                                    /* nothing destroyed */
__CPROVER_ensures(g_foreign_touched == __CPROVER_old(g_foreign_touched));
