// C09 -- daily rotation keeps days apart; rotated names are unique and dated (DESIGN 3, C09)
//@ tus sinks/rotatingfilesink.cpp sinks/filesink.cpp sinks/iodevicesink.cpp
//@ lower RotatingFileSink::send RotatingFileSink::RotatingFileSinkPrivate::init RotatingFileSink::RotatingFileSinkPrivate::rotateIfNeeded
//@ lower RotatingFileSink::RotatingFileSinkPrivate::rotate RotatingFileSink::RotatingFileSinkPrivate::removeOldFiles RotatingFileSink::RotatingFileSinkPrivate::findRotatedFiles
//@ lower RotatingFileSink::RotatingFileSinkPrivate::findNextIndexForDate RotatingFileSink::RotatingFileSinkPrivate::generateRotatedFileName
//@ lower RotatingFileSink::RotatingFileSinkPrivate::checkSizeRotation RotatingFileSink::RotatingFileSinkPrivate::checkDailyRotation RotatingFileSink::RotatingFileSinkPrivate::checkStartupRotation
//@ lower RotatingFileSink::RotatingFileSinkPrivate::baseDir IODeviceSink::send FileSink::file IODeviceSink::device LogMessage::formattedMessage LogMessage::time LogMessage::isFormatted
//@ enforce RotatingFileSink_send timeout=900
//@ enforce RotatingFileSink_RotatingFileSinkPrivate_rotate timeout=900
//@ enforce RotatingFileSink_RotatingFileSinkPrivate_findNextIndexForDate
//@ enforce RotatingFileSink_RotatingFileSinkPrivate_findRotatedFiles
//@ enforce RotatingFileSink_RotatingFileSinkPrivate_removeOldFiles
#define PROP_C09 1
#include "contracts/fs_part1.h"
//@ ---
#include "contracts/fs_common.h"
#include "contracts/fs_msg.h"

/* Inv9: once the sink is initialised, the active file is non-empty and m_currentLogDate is the day of ITS records */
#define INV9(d) ((d)->m_initialized ==> (g_A_recs >= 1 && (d)->m_currentLogDate.jd == g_A_day))
/* A-clock. The wall clock is never behind a message's time. KF_C09_SYNC_CLOCK (used only to delimit the recorded finding):
 * the wall-clock day equals the message's day throughout the call, and an existing file's timestamp day is its records' day */
#ifdef KF_C09_SYNC_CLOCK
#define CLOCK_PREMISE() (g_today == g_msg_jd && (g_A_recs > 0 ==> g_A_mday == g_A_day) && g_clock_frozen == 1)
#else
#define CLOCK_PREMISE() (g_today >= g_msg_jd && g_clock_frozen == 0)
#endif

/* With daily rotation (N != 1): records of different days never share a file (obligation of the write model), a rotated file's
 * name carries the day of its records and a fresh index (obligations of the rename model), and Inv9 is re-established.
 * Stated assumptions: no I/O failure (C10), the file is open. */
void RotatingFileSink_send(RotatingFileSink *self, LogMessage *lmsg)
__CPROVER_requires(SINK_OK(self) && PRIV_FLAGS(self->d.p) && __CPROVER_is_fresh(lmsg, sizeof(*lmsg)) && MSG_TIED(lmsg) && LEDGER_OK() && LEDGER_RANGE())
__CPROVER_requires(self->d.p->m_rotationDaily == 1 && self->d.p->m_maxFileCount != 1 && g_L == self->d.p->m_maxFileSize)
__CPROVER_requires(g_open == 1 && g_A_exists == 1 && g_gz_exists == 0 && CLOCK_PREMISE() && INV9(self->d.p))
__CPROVER_assigns(LEDGER_GHOSTS, PRIV_STATE(self->d.p))
__CPROVER_ensures(DIR_INV())
__CPROVER_ensures(ACTIVE_VALID())
__CPROVER_ensures(LEDGER_OK())
__CPROVER_ensures(g_gz_exists == 0 && self->d.p->m_initialized == 1)
__CPROVER_ensures(g_A_recs >= 1 && g_A_day == g_msg_jd)
__CPROVER_ensures(self->d.p->m_currentLogDate.jd == g_A_day);                 /* Inv9 re-established */
