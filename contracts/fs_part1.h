/* shared part 1 of the file-system units: the ledger model and the smart-pointer layouts the lowered code uses */
#include "models/fs.h"
typedef struct { RotatingFileSink_RotatingFileSinkPrivate *p; } QScopedPointer_RotatingFileSink_RotatingFileSinkPrivate;
