// C15 -- category rules decide exactly as ordered Qt-style rules prescribe (DESIGN 3, C15)
//@ tus filters/categoryfilter.cpp
//@ lower CategoryFilter::filter CategoryFilter::parseRules CategoryFilter::Rule::matches CategoryFilter::CategoryFilter stringToQtMsgType
//@ lower LogMessage::category LogMessage::type
//@ enforce CategoryFilter_filter
//@ enforce CategoryFilter_Rule_matches
//@ enforce CategoryFilter_parseRules
//@ enforce CategoryFilter_ctor__QString
//@ enforce stringToQtMsgType
#define QSTRING_EXTRA_FIELDS int line; int grp;
#define VERIF_OWN_QSTRINGLIST
#include "models/ident.h"
int nondet_int(void);
/* what a string denotes in this unit */
enum { T_OTHER = 0, T_LIT, T_RULES, T_RULES_NL, T_LINE, T_CAP, T_ESC, T_GLOB, T_ANCH1, T_ANCH2 };
static inline QString tx(int tag, int line, int grp) { QString s; s.isnull = 0; s.id = nondet_int(); s.len = 1; s.tag = tag; s.line = line; s.grp = grp; return s; }
static inline QString QString_ctor__cstr(cstr c) { QString s = tx(c.id != 0 ? T_LIT : T_OTHER, -1, 0); s.id = c.id; s.len = c.len; s.isnull = c.isnull; return s; }
/* the literals this unit's axioms are about (A-regex / A-format); an edited literal gets another identity and is not recognised */
#ifndef LIT___230906a9
#define LIT___230906a9 (-2001)   /* ";"  */
#endif
#ifndef LIT___32d70693
#define LIT___32d70693 (-2002)   /* "\n" */
#endif
#ifndef LIT____0c6cc971
#define LIT____0c6cc971 (-2003)  /* "\\*" (an escaped star)  */
#endif
#ifndef LIT____1165d205
#define LIT____1165d205 (-2004)  /* ".*"  */
#endif
#ifndef LIT___1ed1937e
#define LIT___1ed1937e (-2005)   /* "^"  */
#endif
#ifndef LIT___2e010b5c
#define LIT___2e010b5c (-2006)   /* "$"  */
#endif
#ifndef LIT___s___S_________debug_info_warni_3928693b
#define LIT___s___S_________debug_info_warni_3928693b (-2007)   /* the line grammar ^\s*(\S+?)(?:\.(debug|info|warning|critical))?\s*=\s*(true|false)\s*$ */
#endif
#ifndef LIT_true
#define LIT_true (-2008)
#endif
#ifndef LIT_false
#define LIT_false (-2009)
#endif
#ifndef LIT_debug
#define LIT_debug (-2010)
#define LIT_info (-2011)
#define LIT_warning (-2012)
#define LIT_critical (-2013)
#define LIT_fatal (-2014)
#endif
/* QString::replace(before, after): only the two replacements the property is about are understood */
static inline QString *QString_replace__QString_QString(QString *s, QString a, QString b)
{ if (s->tag == T_RULES && a.tag == T_LIT && a.id == LIT___230906a9 && b.tag == T_LIT && b.id == LIT___32d70693) s->tag = T_RULES_NL;      /* ';' -> newline  */
  else if (s->tag == T_ESC && a.tag == T_LIT && a.id == LIT____0c6cc971 && b.tag == T_LIT && b.id == LIT____1165d205) s->tag = T_GLOB;       /* escaped '*' -> '.*' */
  else s->tag = T_OTHER; return s; }
static inline QString op_plus__cstr_QString(cstr a, QString s) { QString r = s; r.tag = (s.tag == T_GLOB && a.id == LIT___1ed1937e) ? T_ANCH1 : T_OTHER; return r; }
static inline QString op_plus__QString_cstr(QString s, cstr b) { QString r = s; r.tag = (s.tag == T_ANCH1 && b.id == LIT___2e010b5c) ? T_ANCH2 : T_OTHER; return r; }
static inline QString op_plus__QString_QString(QString a, QString b) { QString r = a; r.tag = T_OTHER; return r; }

/* facts about the rule text (uninterpreted: any rule list): is line k well formed, has it a type suffix, which, verdict */
BOOL __CPROVER_uninterpreted_wellformed(int k); int __CPROVER_uninterpreted_cap2(int k); int __CPROVER_uninterpreted_cap3(int k);
#define WF_LINE(k) (__CPROVER_uninterpreted_wellformed(k) != 0)
#define CAP2_OK(x) ((x) == 0 || (x) == LIT_debug || (x) == LIT_info || (x) == LIT_warning || (x) == LIT_critical)
#define CAP3_OK(x) ((x) == LIT_true || (x) == LIT_false)

/* lines = rules.split('\n', SkipEmptyParts) */
typedef struct { int c; } QChar; static inline QChar QChar_ctor__int(int c) { QChar q; q.c = c; return q; }
typedef struct { int v; } QFlags_Qt_SplitBehaviorFlags; enum { E_Qt_SplitBehaviorFlags_KeepEmptyParts = 0, E_Qt_SplitBehaviorFlags_SkipEmptyParts = 1 };
static inline QFlags_Qt_SplitBehaviorFlags QFlags_Qt_SplitBehaviorFlags_ctor__Qt_SplitBehaviorFlags(int f) { QFlags_Qt_SplitBehaviorFlags r; r.v = f; return r; }
typedef struct { int n; int lines_of_rules; } QList_QString; typedef struct { QList_QString _base; } QStringList;
typedef struct { QList_QString *l; int i; } QList_QString_const_iterator;
static inline QStringList QString_split__QChar_QFlags_Qt_SplitBehaviorFlags(QString s, QChar sep, QFlags_Qt_SplitBehaviorFlags f)
{ QStringList l; l._base.n = nondet_int(); __CPROVER_assume(l._base.n >= 0 && l._base.n <= 1000000000); l._base.lines_of_rules = (s.tag == T_RULES_NL && sep.c == 10); return l; }
static inline QList_QString_const_iterator QList_QString_begin_const(QList_QString *l) { QList_QString_const_iterator it; it.l = l; it.i = 0; return it; }
static inline QList_QString_const_iterator QList_QString_end_const(QList_QString *l) { QList_QString_const_iterator it; it.l = l; it.i = l->n; return it; }
static inline BOOL QList_QString_const_iterator_op_ne__QList_QString_const_iterator(QList_QString_const_iterator a, QList_QString_const_iterator b) { return a.i != b.i; }
static inline QList_QString_const_iterator *QList_QString_const_iterator_op_inc(QList_QString_const_iterator *a) { a->i++; return a; }
static inline QString QList_QString_const_iterator_op_deref(QList_QString_const_iterator it)
{ __CPROVER_assert(0 <= it.i && it.i < it.l->n, "QStringList iterator dereferenced inside [begin,end)"); return tx(it.l->lines_of_rules ? T_LINE : T_OTHER, it.i, 0); }
/* the same elements through index access (at / operator[] const / size / count / isEmpty) */
static inline QString QList_QString_at__int(QList_QString l, int i)
{ __CPROVER_assert(0 <= i && i < l.n, "QStringList::at(i) needs 0 <= i < size()"); return tx(l.lines_of_rules ? T_LINE : T_OTHER, i, 0); }
static inline QString QList_QString_op_index__int(QList_QString l, int i) { return QList_QString_at__int(l, i); }
static inline int QList_QString_size(QList_QString l) { return l.n; }
static inline int QList_QString_count(QList_QString l) { return l.n; }
static inline int QList_QString_length(QList_QString l) { return l.n; }
static inline BOOL QList_QString_isEmpty(QList_QString l) { return l.n == 0; }

/* regular expressions (A-regex) */
enum { RE_UNKNOWN = 0, RE_LINE_GRAMMAR, RE_GLOB };
typedef struct { int kind; int id; int line; } QRegularExpression;
typedef struct { int has; int line; int known; } QRegularExpressionMatch;
/* pattern options: anything but NoPatternOption gives ANOTHER matcher than the documented line grammar / glob (kind unknown) */
enum { E_QRegularExpression_PatternOption_NoPatternOption = 0, E_QRegularExpression_PatternOption_CaseInsensitiveOption = 1, E_QRegularExpression_PatternOption_DotMatchesEverythingOption = 2,
       E_QRegularExpression_PatternOption_MultilineOption = 4, E_QRegularExpression_PatternOption_ExtendedPatternSyntaxOption = 8, E_QRegularExpression_PatternOption_InvertedGreedinessOption = 16,
       E_QRegularExpression_PatternOption_DontCaptureOption = 32, E_QRegularExpression_PatternOption_UseUnicodePropertiesOption = 64 };
static inline QRegularExpression QRegularExpression_ctor(void) { QRegularExpression r; r.kind = RE_UNKNOWN; r.id = 0; r.line = -1; return r; }
static inline QRegularExpression QRegularExpression_ctor__QString(QString p)
{ QRegularExpression r; r.kind = RE_UNKNOWN; r.id = nondet_int(); r.line = p.line;
  if (p.tag == T_LIT && p.id == LIT___s___S_________debug_info_warni_3928693b) r.kind = RE_LINE_GRAMMAR;
  if (p.tag == T_ANCH2 && p.grp == 1) r.kind = RE_GLOB;              /* ^ + escape(capture 1 of that line) with \* -> .* + $  =  the glob of that line, anchored */
  return r; }
typedef struct { int v; } QFlags_QRegularExpression_PatternOption;
static inline QFlags_QRegularExpression_PatternOption QFlags_QRegularExpression_PatternOption_ctor__QRegularExpression_PatternOption(int o) { QFlags_QRegularExpression_PatternOption f; f.v = o; return f; }
static inline QRegularExpression QRegularExpression_ctor__QString_QFlags_QRegularExpression_PatternOption(QString p, QFlags_QRegularExpression_PatternOption o)
{ QRegularExpression r = QRegularExpression_ctor__QString(p); if (o.v != 0) r.kind = RE_UNKNOWN; return r; }
static inline QString QRegularExpression_escape__QString(QString s) { QString r = s; r.tag = (s.tag == T_CAP && s.grp == 1) ? T_ESC : T_OTHER; return r; }
BOOL __CPROVER_uninterpreted_glob_matches(int rule_text_id, int cat_id, int cat_len);
int g_cur_line;                                                        /* the line the line-grammar regex matched last */
unsigned long long g_wf_seen;                                          /* well-formed lines seen by the line-grammar regex */
static inline QRegularExpressionMatch QRegularExpression_match__QString(QRegularExpression re, QString s)
{ QRegularExpressionMatch m; m.line = s.line; m.known = 0;
  if (re.kind == RE_LINE_GRAMMAR && s.tag == T_LINE) { m.has = WF_LINE(s.line); m.known = 1; if (m.has) { g_cur_line = s.line; g_wf_seen++; } }
  else if (re.kind == RE_GLOB) m.has = __CPROVER_uninterpreted_glob_matches(re.id, s.len == 0 ? 0 : s.id, s.len) != 0;
  else m.has = nondet_int() != 0;
  return m; }
static inline BOOL QRegularExpressionMatch_hasMatch(QRegularExpressionMatch m) { return m.has; }
static inline QString QRegularExpressionMatch_captured__int(QRegularExpressionMatch m, int n)
{ QString s = tx(m.known && m.has ? T_CAP : T_OTHER, m.line, n);
  if (m.known && m.has && n == 2) { s.id = __CPROVER_uninterpreted_cap2(m.line); __CPROVER_assume(CAP2_OK(s.id)); s.len = s.id == 0 ? 0 : 4; s.isnull = s.id == 0; }
  if (m.known && m.has && n == 3) { s.id = __CPROVER_uninterpreted_cap3(m.line); __CPROVER_assume(CAP3_OK(s.id)); s.len = 4; }
  return s; }
static inline BOOL QString_op_eq__cstr(QString s, cstr c) { return (s.len == 0 && c.len == 0) || (s.len != 0 && c.len != 0 && s.id == c.id); }

/* QHash<QString,QtMsgType> built by a brace initialiser: up to 8 entries, looked up by text identity */
typedef struct { int n; int k[8]; QtMsgType v[8]; } QHash_QString_QtMsgType;
typedef struct { QString first; QtMsgType second; } std_pair_QString_QtMsgType;
static inline QHash_QString_QtMsgType QHash_QString_QtMsgType_ctor(void) { QHash_QString_QtMsgType h; h.n = 0; return h; }
static inline std_pair_QString_QtMsgType std_pair_QString_QtMsgType_ctor__QString_QtMsgType(QString k, QtMsgType v) { std_pair_QString_QtMsgType p; p.first = k; p.second = v; return p; }
static inline void QHash_QString_QtMsgType_initlist_add__std_pair_QString_QtMsgType(QHash_QString_QtMsgType *h, std_pair_QString_QtMsgType e)
{ __CPROVER_assert(h->n >= 0 && h->n < 8, "initialiser list within the model's capacity"); h->k[h->n] = e.first.id; h->v[h->n] = e.second; h->n = h->n + 1; }
#define HV(i) if (h.n > (i) && h.k[i] == key.id && key.len != 0) r = h.v[i];
static inline QtMsgType QHash_QString_QtMsgType_value__QString_QtMsgType(QHash_QString_QtMsgType h, QString key, QtMsgType dflt)
{ QtMsgType r = dflt; HV(0) HV(1) HV(2) HV(3) HV(4) HV(5) HV(6) HV(7) return r; }

/* the rule list: abstract length; the rule at the arbitrary index g_r is g_rule_r */
typedef struct { CategoryFilter_Rule *p; } QSharedPointer_CategoryFilter_Rule;
typedef struct { int n; } QList_QSharedPointer_CategoryFilter_Rule;
typedef QList_QSharedPointer_CategoryFilter_Rule add_const_t_QList_QSharedPointer_CategoryFilter_Rule;
typedef struct { QList_QSharedPointer_CategoryFilter_Rule *l; int i; } QList_QSharedPointer_CategoryFilter_Rule_const_iterator;
typedef QList_QSharedPointer_CategoryFilter_Rule_const_iterator RIT;
static inline QList_QSharedPointer_CategoryFilter_Rule QList_QSharedPointer_CategoryFilter_Rule_ctor(void) { QList_QSharedPointer_CategoryFilter_Rule l; l.n = 0; return l; }
static inline RIT QList_QSharedPointer_CategoryFilter_Rule_begin(QList_QSharedPointer_CategoryFilter_Rule *l) { RIT it; it.l = l; it.i = 0; return it; }
static inline RIT QList_QSharedPointer_CategoryFilter_Rule_end(QList_QSharedPointer_CategoryFilter_Rule *l) { RIT it; it.l = l; it.i = l->n; return it; }
static inline RIT QList_QSharedPointer_CategoryFilter_Rule_begin_const(QList_QSharedPointer_CategoryFilter_Rule *l) { RIT it; it.l = l; it.i = 0; return it; }
static inline RIT QList_QSharedPointer_CategoryFilter_Rule_end_const(QList_QSharedPointer_CategoryFilter_Rule *l) { RIT it; it.l = l; it.i = l->n; return it; }
static inline BOOL QList_QSharedPointer_CategoryFilter_Rule_const_iterator_op_ne__QList_QSharedPointer_CategoryFilter_Rule_const_iterator(RIT a, RIT b) { return a.i != b.i; }
static inline RIT *QList_QSharedPointer_CategoryFilter_Rule_const_iterator_op_inc(RIT *a) { a->i++; return a; }
/* further API a changed implementation may use: non-const iteration, element access, comparisons */
typedef RIT QList_QSharedPointer_CategoryFilter_Rule_iterator;
static inline BOOL QList_QSharedPointer_CategoryFilter_Rule_iterator_valid_range(RIT a, RIT b) { return a.l == b.l && 0 <= a.i && a.i <= b.i && b.i <= a.l->n; }
static inline BOOL QList_QSharedPointer_CategoryFilter_Rule_iterator_op_ne(RIT a, RIT b) { return a.i != b.i; }
static inline RIT *QList_QSharedPointer_CategoryFilter_Rule_iterator_op_inc(RIT *a) { a->i++; return a; }
static inline BOOL QList_QSharedPointer_CategoryFilter_Rule_iterator_op_ne__QList_QSharedPointer_CategoryFilter_Rule_iterator(RIT a, RIT b) { return a.i != b.i; }
static inline BOOL QList_QSharedPointer_CategoryFilter_Rule_iterator_op_eq__QList_QSharedPointer_CategoryFilter_Rule_iterator(RIT a, RIT b) { return a.i == b.i; }
static inline int QList_QSharedPointer_CategoryFilter_Rule_size(QList_QSharedPointer_CategoryFilter_Rule l) { return l.n; }
static inline int QList_QSharedPointer_CategoryFilter_Rule_count(QList_QSharedPointer_CategoryFilter_Rule l) { return l.n; }
static inline BOOL QList_QSharedPointer_CategoryFilter_Rule_isEmpty(QList_QSharedPointer_CategoryFilter_Rule l) { return l.n == 0; }
static inline BOOL QRegularExpression_op_eq__QRegularExpression(QRegularExpression a, QRegularExpression b) { return a.kind == b.kind && a.id == b.id; }
static inline BOOL QRegularExpression_op_ne__QRegularExpression(QRegularExpression a, QRegularExpression b) { return !(a.kind == b.kind && a.id == b.id); }
static inline QString QRegularExpression_pattern(QRegularExpression a) { QString s = tx(T_OTHER, a.line, 0); s.id = a.id; return s; }
/* Qt's file-name globbing translation is NOT the rule semantics (it treats ? [ ] / specially): unknown pattern */
static inline QString QRegularExpression_wildcardToRegularExpression__QString(QString s) { return tx(T_OTHER, s.line, 0); }
static inline QString QRegularExpression_anchoredPattern__QString(QString s) { QString r = s; r.tag = s.tag == T_GLOB ? T_ANCH2 : T_OTHER; return r; }
static inline CategoryFilter_Rule *QSharedPointer_CategoryFilter_Rule_op_arrow(QSharedPointer_CategoryFilter_Rule r) { return r.p; }
static inline CategoryFilter_Rule *QSharedPointer_CategoryFilter_Rule_data(QSharedPointer_CategoryFilter_Rule r) { return r.p; }
//@ ---
CategoryFilter_Rule g_rule_L, g_rule_cell, g_new_rule;
#define RULE_VALID(r) (IS_BOOL((r).typeMatch) && IS_BOOL((r).enabled) && QTMSGTYPE_VALID((r).type))
/* the message filter() is deciding (ghost copy, tied to lmsg by filter's precondition) */
int g_cat_id, g_cat_len; QtMsgType g_msg_type;
#define GLOB(r) (__CPROVER_uninterpreted_glob_matches((r).category.id, g_cat_len == 0 ? 0 : g_cat_id, g_cat_len) != 0)
#define MATCHES(r) (GLOB(r) && (!(r).typeMatch || (r).type == g_msg_type))
/* CASE SPLIT over all rule lists: let g_L be the index of the LAST rule that matches the message (-1: none). The element model hands
 * out rule g_L = g_rule_L (which matches), any rule before it, and only NON-matching rules after it. Every concrete list is an
 * instance for exactly one g_L, so proving filter() for arbitrary g_L proves it for every list. */
int g_L;
static inline QSharedPointer_CategoryFilter_Rule QList_QSharedPointer_CategoryFilter_Rule_const_iterator_op_deref(RIT it)
{ __CPROVER_assert(0 <= it.i && it.i < it.l->n, "rule list iterator dereferenced inside [begin,end)");
  QSharedPointer_CategoryFilter_Rule r;
  if (it.i == g_L) r.p = &g_rule_L;
  else { CategoryFilter_Rule any; __CPROVER_assume(RULE_VALID(any) && any.category.kind == RE_GLOB); if (it.i > g_L) __CPROVER_assume(!MATCHES(any)); g_rule_cell = any; r.p = &g_rule_cell; }
  return r; }
/* the same list read backwards (crbegin/crend) */
DEFINE_REVERSE_ITERATORS(QList_QSharedPointer_CategoryFilter_Rule, QSharedPointer_CategoryFilter_Rule, QList_QSharedPointer_CategoryFilter_Rule_const_iterator_op_deref)
static inline QSharedPointer_CategoryFilter_Rule QList_QSharedPointer_CategoryFilter_Rule_iterator_op_deref_value(RIT it) { return QList_QSharedPointer_CategoryFilter_Rule_const_iterator_op_deref(it); }
static inline QSharedPointer_CategoryFilter_Rule *QList_QSharedPointer_CategoryFilter_Rule_iterator_op_deref(RIT it) { static QSharedPointer_CategoryFilter_Rule cell; cell = QList_QSharedPointer_CategoryFilter_Rule_const_iterator_op_deref(it); return &cell; }
static inline QSharedPointer_CategoryFilter_Rule QSharedPointer_Rule_create(void) { QSharedPointer_CategoryFilter_Rule r; CategoryFilter_Rule fresh; g_new_rule = fresh; r.p = &g_new_rule; return r; }

/* ---- Rule::matches: the pattern (anchored glob regex) matches the category, and the rule is untyped or of the message's type ---- */
BOOL CategoryFilter_Rule_matches(CategoryFilter_Rule *self, QString category, QtMsgType messageType)
__CPROVER_requires((self == &g_rule_L || self == &g_rule_cell || __CPROVER_is_fresh(self, sizeof(*self))) && RULE_VALID(*self) && self->category.kind == RE_GLOB && QSTRING_VALID(category) && QTMSGTYPE_VALID(messageType))
__CPROVER_assigns()
__CPROVER_ensures(__CPROVER_return_value == ((__CPROVER_uninterpreted_glob_matches(self->category.id, category.len == 0 ? 0 : category.id, category.len) != 0) && (!self->typeMatch || self->type == messageType)));

/* ---- filter: the LAST matching rule decides; no matching rule: the message passes ---- */
BOOL CategoryFilter_filter(CategoryFilter *self, LogMessage *lmsg)
__CPROVER_requires(__CPROVER_is_fresh(self, sizeof(*self)) && __CPROVER_is_fresh(lmsg, sizeof(*lmsg)) && self->m_rules.n >= 0 && CSTR_VALID(lmsg->m_context.category) && QTMSGTYPE_VALID(lmsg->m_type))
__CPROVER_requires(g_msg_type == lmsg->m_type && g_cat_len == (lmsg->m_context.category.isnull ? 0 : lmsg->m_context.category.len) && g_cat_id == lmsg->m_context.category.id)
__CPROVER_requires(g_L >= -1 && g_L < self->m_rules.n && (g_L >= 0 ==> (RULE_VALID(g_rule_L) && g_rule_L.category.kind == RE_GLOB && MATCHES(g_rule_L))))
__CPROVER_assigns(g_rule_cell)
__CPROVER_ensures(g_L == -1 ==> __CPROVER_return_value == 1)
__CPROVER_ensures(g_L >= 0 ==> __CPROVER_return_value == g_rule_L.enabled);
#if defined(LOOPKIND_CategoryFilter_filter_0_range_for) && defined(HASVAR_CategoryFilter_filter_enabled)
#define LOOP_CategoryFilter_filter_0 \
  __CPROVER_assigns(__begin1.i, enabled, g_rule_cell) \
  __CPROVER_loop_invariant(__begin1.l == &self->m_rules && __end1.l == __begin1.l && __end1.i == self->m_rules.n && 0 <= __begin1.i && __begin1.i <= __end1.i && IS_BOOL(enabled)) \
  __CPROVER_loop_invariant(g_L == -1 ==> enabled == 1) \
  __CPROVER_loop_invariant((g_L >= 0 && __begin1.i > g_L) ==> enabled == g_rule_L.enabled) \
  __CPROVER_decreases(__end1.i - __begin1.i)
#endif
/* QString(const char *category) in filter(): the category text (null pointer = empty) -- handled by QString_ctor__cstr above */

/* ---- stringToQtMsgType: the four suffix words (and "fatal") map to their types, anything else to the default ---- */
#define TYPE_OF(lit, d) ((lit) == LIT_debug ? QtDebugMsg : (lit) == LIT_info ? QtInfoMsg : (lit) == LIT_warning ? QtWarningMsg : (lit) == LIT_critical ? QtCriticalMsg : (lit) == LIT_fatal ? QtFatalMsg : (d))
QtMsgType stringToQtMsgType(QString str, QtMsgType a_default)
__CPROVER_requires(QSTRING_VALID(str) && QTMSGTYPE_VALID(a_default))
__CPROVER_assigns()
__CPROVER_ensures(__CPROVER_return_value == (str.len == 0 ? a_default : TYPE_OF(str.id, a_default)));

/* ---- parseRules: every well-formed line yields ONE rule, appended at the END (so list order = line order); a malformed line yields
 *      nothing and touches nothing. The appended rule: category = anchored glob of the line's capture 1, type/typeMatch from the
 *      optional suffix, enabled iff the value is "true" (obligations of the append model) ---- */
unsigned long long g_appends;
static inline void QList_QSharedPointer_CategoryFilter_Rule_append__QSharedPointer_CategoryFilter_Rule(QList_QSharedPointer_CategoryFilter_Rule *l, QSharedPointer_CategoryFilter_Rule r)
{
    __CPROVER_assert(l->n >= 0 && l->n < 2147483647, "rule list length in range");
    __CPROVER_assert(r.p != NULL && r.p->category.kind == RE_GLOB && r.p->category.line == g_cur_line, "the rule's pattern is the anchored glob translation (escape, then \\* -> .*) of the category part of ITS line");
    int c2 = __CPROVER_uninterpreted_cap2(g_cur_line), c3 = __CPROVER_uninterpreted_cap3(g_cur_line);
    __CPROVER_assert(r.p->typeMatch == (c2 != 0), "typed rule iff the line has a .debug/.info/.warning/.critical suffix");
    __CPROVER_assert(c2 == 0 || r.p->type == TYPE_OF(c2, QtDebugMsg), "the rule's type is the suffix's message type");
    __CPROVER_assert(r.p->enabled == (c3 == LIT_true), "the rule enables iff the value is true");
    if (l->n < 2147483647) l->n++;
    g_appends++;            /* appended at the END: list order = line order */
}
void CategoryFilter_parseRules(CategoryFilter *self, QString rules)
__CPROVER_requires(__CPROVER_is_fresh(self, sizeof(*self)) && self->m_rules.n >= 0 && self->m_rules.n < 1000000000 && rules.tag == T_RULES_NL)
__CPROVER_assigns(self->m_rules.n, g_appends, g_cur_line, g_new_rule, g_wf_seen)
__CPROVER_ensures(self->m_rules.n >= __CPROVER_old(self->m_rules.n))
/* as many rules were appended as there are well-formed lines (each line looked at once); malformed lines add nothing */
__CPROVER_ensures(g_appends - __CPROVER_old(g_appends) == g_wf_seen - __CPROVER_old(g_wf_seen));
#if defined(LOOPKIND_CategoryFilter_parseRules_0_range_for)
#define LOOP_CategoryFilter_parseRules_0 \
  __CPROVER_assigns(__begin1.i, self->m_rules.n, g_appends, g_cur_line, g_new_rule, g_wf_seen) \
  __CPROVER_loop_invariant(__begin1.l == &lines._base && __end1.l == __begin1.l && __end1.i == lines._base.n && 0 <= __begin1.i && __begin1.i <= __end1.i && lines._base.lines_of_rules == 1) \
  __CPROVER_loop_invariant(self->m_rules.n >= __CPROVER_loop_entry(self->m_rules.n) && self->m_rules.n <= __CPROVER_loop_entry(self->m_rules.n) + __begin1.i) \
  __CPROVER_loop_invariant(g_appends - __CPROVER_loop_entry(g_appends) == g_wf_seen - __CPROVER_loop_entry(g_wf_seen)) \
  __CPROVER_decreases(__end1.i - __begin1.i)
#endif

/* ---- constructor: ';' and newline both separate rules: parseRules gets the text with every ';' replaced by a newline ---- */
void CategoryFilter_ctor__QString(CategoryFilter *self, QString a_rules)
__CPROVER_requires(__CPROVER_is_fresh(self, sizeof(*self)) && a_rules.tag == T_RULES)
__CPROVER_assigns(*self, g_appends, g_cur_line, g_new_rule, g_wf_seen)
__CPROVER_ensures(self->m_rules.n >= 0 && g_appends - __CPROVER_old(g_appends) == g_wf_seen - __CPROVER_old(g_wf_seen));
static inline void Filter_ctor__void(Filter *self) { }
