/* shared part 1 of the threading units (C02, C03, C04) */
#include "models/thread.h"
typedef struct { Handler *p; } QSharedPointer_Handler;
typedef struct { int n; } QList_QSharedPointer_Handler;
typedef struct { Logger *p; } QBasicAtomicPointer_Logger;
typedef struct { QBasicAtomicPointer_Logger _base; } QAtomicPointer_Logger;
typedef void (*voidPQtMsgType_QMessageLogContextR_QStringR)(QtMsgType, QMessageLogContext, QString);
typedef struct { long long ticks2; } std_chrono_steady_clock_time_point_unused;
