// C17 -- the sorted pipeline keeps handler classes in order for any call sequence (DESIGN 3, C17)
//@ tus sortedpipeline.cpp pipeline.cpp
//@ lower SortedPipeline::insertBetweenNearLeft SortedPipeline::insertBetweenNearRight SortedPipeline::clear#Handler_HandlerType
//@ lower SortedPipeline::appendAttrHandler SortedPipeline::appendFilter SortedPipeline::setFormatter SortedPipeline::appendSink SortedPipeline::appendPipeline
//@ lower SortedPipeline::clearAttrHandlers SortedPipeline::clearFilters SortedPipeline::clearFormatters SortedPipeline::clearSinks SortedPipeline::clearPipelines
//@ lower SortedPipeline::clear#void Pipeline::clear Pipeline::handlers#void Pipeline::append#QSharedPointer_Handler
//@ enforce find_if_lambda_SortedPipeline_insertBetweenNearLeft_0
//@ enforce find_if_lambda_SortedPipeline_insertBetweenNearLeft_1
//@ enforce find_if_lambda_SortedPipeline_insertBetweenNearRight_0
//@ enforce find_if_lambda_SortedPipeline_insertBetweenNearRight_1
//@ enforce SortedPipeline_appendAttrHandler
//@ enforce SortedPipeline_appendFilter
//@ enforce SortedPipeline_setFormatter
//@ enforce SortedPipeline_appendSink
//@ enforce SortedPipeline_appendPipeline
//@ enforce SortedPipeline_clear__Handler_HandlerType
//@ enforce SortedPipeline_clearAttrHandlers
//@ enforce SortedPipeline_clearFilters
//@ enforce SortedPipeline_clearFormatters
//@ enforce SortedPipeline_clearSinks
//@ enforce SortedPipeline_clearPipelines
//@ enforce SortedPipeline_clear__void
#include "models/ident.h"

/* ---- the list abstraction IS the representation invariant Inv17 ------------------------------------
 * A handler list sorted by class rank (Attr < Filter < Formatter < Sink < Pipeline) is exactly described
 * by its run lengths c[class]. Well-formedness of this abstract value = "the list is sorted"; every
 * operation that would leave the sorted lists (insert at a position outside the class's slot) or
 * reorder equal-class elements (insert not at the END of the class's slot) is an obligation of the
 * corresponding model below.  Lengths are bounded only by LIM per class (int arithmetic).           */
enum { NT = 6 };
#define LIM 100000000
typedef struct { int c[NT]; } QList_QSharedPointer_Handler;
#define CUM0(l) ((l)->c[0])
#define CUM1(l) (CUM0(l) + (l)->c[1])
#define CUM2(l) (CUM1(l) + (l)->c[2])
#define CUM3(l) (CUM2(l) + (l)->c[3])
#define CUM4(l) (CUM3(l) + (l)->c[4])
#define SIZE(l) (CUM4(l) + (l)->c[5])
#define WF(l) ((l)->c[0] == 0 && (l)->c[1] >= 0 && (l)->c[2] >= 0 && (l)->c[3] >= 0 && (l)->c[4] >= 0 && (l)->c[5] >= 0 && \
               (l)->c[1] <= LIM && (l)->c[2] <= LIM && (l)->c[3] <= LIM && (l)->c[4] <= LIM && (l)->c[5] <= LIM)
#define CUM(l, t) ((t) == 0 ? CUM0(l) : (t) == 1 ? CUM1(l) : (t) == 2 ? CUM2(l) : (t) == 3 ? CUM3(l) : (t) == 4 ? CUM4(l) : SIZE(l))
#define START(l, t) ((t) == 0 ? 0 : CUM(l, (t) - 1))
/* class of the element at index i of a well-formed list (0 <= i < SIZE) */
#define CLASS_AT(l, i) ((i) < CUM1(l) ? HT_AttrHandler : (i) < CUM2(l) ? HT_Filter : (i) < CUM3(l) ? HT_Formatter : (i) < CUM4(l) ? HT_Sink : HT_Pipeline)
#define TYPED(t) ((t) >= HT_AttrHandler && (t) <= HT_Pipeline)

/* shared pointers carry the dynamic class of the pointee (ghost): a QSharedPointer<AttrHandler> points to an
 * object whose type() is AttrHandler, etc. (assumption: no subclass overrides type() again) */
typedef struct { Handler *p; int ty; } QSharedPointer_Handler;
typedef struct { AttrHandler *p; } QSharedPointer_AttrHandler;
typedef struct { Filter *p; } QSharedPointer_Filter;
typedef struct { Formatter *p; } QSharedPointer_Formatter;
typedef struct { Sink *p; } QSharedPointer_Sink;
typedef struct { Pipeline *p; } QSharedPointer_Pipeline;
static inline BOOL QSharedPointer_AttrHandler_isNull(QSharedPointer_AttrHandler h) { return h.p == NULL; }
static inline BOOL QSharedPointer_Filter_isNull(QSharedPointer_Filter h) { return h.p == NULL; }
static inline BOOL QSharedPointer_Formatter_isNull(QSharedPointer_Formatter h) { return h.p == NULL; }
static inline BOOL QSharedPointer_Sink_isNull(QSharedPointer_Sink h) { return h.p == NULL; }
static inline BOOL QSharedPointer_Pipeline_isNull(QSharedPointer_Pipeline h) { return h.p == NULL; }
static inline BOOL QSharedPointer_Handler_isNull(QSharedPointer_Handler h) { return h.p == NULL; }

/* QSet<HandlerType>: bit set */
typedef struct { unsigned bits; } QSet_Handler_HandlerType;
static inline QSet_Handler_HandlerType QSet_Handler_HandlerType_ctor(void) { QSet_Handler_HandlerType s; s.bits = 0u; return s; }
static inline void QSet_Handler_HandlerType_initlist_add__Handler_HandlerType(QSet_Handler_HandlerType *s, Handler_HandlerType t)
{ __CPROVER_assert(t >= 0 && t < NT, "handler class in range"); s->bits |= (1u << (unsigned)t); }
#define SET_HAS(s, t) ((((s).bits >> (unsigned)(t)) & 1u) != 0)
static inline BOOL QSet_Handler_HandlerType_contains__Handler_HandlerType(QSet_Handler_HandlerType s, Handler_HandlerType t)
{ __CPROVER_assert(t >= 0 && t < NT, "handler class in range"); return SET_HAS(s, t); }

/* iterators: forward {l,i} designates index i; reverse {l,i} designates index i-1 (i = base() index) */
typedef struct { QList_QSharedPointer_Handler *l; int i; } QList_QSharedPointer_Handler_iterator;
typedef struct { QList_QSharedPointer_Handler *l; int i; } std_reverse_iterator_QList_QSharedPointer_Handler_iterator;
typedef QList_QSharedPointer_Handler_iterator IT;
typedef std_reverse_iterator_QList_QSharedPointer_Handler_iterator RIT;
static inline IT QList_QSharedPointer_Handler_begin(QList_QSharedPointer_Handler *l) { IT it; it.l = l; it.i = 0; return it; }
static inline IT QList_QSharedPointer_Handler_end(QList_QSharedPointer_Handler *l) { IT it; it.l = l; it.i = SIZE(l); return it; }
static inline RIT QList_QSharedPointer_Handler_rbegin(QList_QSharedPointer_Handler *l) { RIT it; it.l = l; it.i = SIZE(l); return it; }
static inline RIT QList_QSharedPointer_Handler_rend(QList_QSharedPointer_Handler *l) { RIT it; it.l = l; it.i = 0; return it; }
static inline RIT std_make_reverse_iterator__QList_QSharedPointer_Handler_iterator(IT it) { RIT r; r.l = it.l; r.i = it.i; return r; }
static inline IT std_reverse_iterator_QList_QSharedPointer_Handler_iterator_base(RIT r) { IT it; it.l = r.l; it.i = r.i; return it; }
static inline BOOL QList_QSharedPointer_Handler_iterator_valid_range(IT a, IT b)
{ return a.l == b.l && 0 <= a.i && a.i <= b.i && b.i <= SIZE(a.l); }
static inline BOOL std_reverse_iterator_QList_QSharedPointer_Handler_iterator_valid_range(RIT a, RIT b)
{ return a.l == b.l && 0 <= b.i && b.i <= a.i && a.i <= SIZE(a.l); }
static inline BOOL QList_QSharedPointer_Handler_iterator_op_ne(IT a, IT b) { return a.i != b.i; }
static inline BOOL std_reverse_iterator_QList_QSharedPointer_Handler_iterator_op_ne(RIT a, RIT b) { return a.i != b.i; }
static inline IT *QList_QSharedPointer_Handler_iterator_op_inc(IT *a) { a->i++; return a; }
static inline RIT *std_reverse_iterator_QList_QSharedPointer_Handler_iterator_op_inc(RIT *a) { a->i--; return a; }


/* ---- further Qt/std API of the same containers, so that plausible edits of the code stay decidable ---- */
typedef IT QList_QSharedPointer_Handler_const_iterator;
typedef RIT std_reverse_iterator_QList_QSharedPointer_Handler_const_iterator;
static inline IT QList_QSharedPointer_Handler_begin_const(QList_QSharedPointer_Handler *l) { return QList_QSharedPointer_Handler_begin(l); }
static inline IT QList_QSharedPointer_Handler_end_const(QList_QSharedPointer_Handler *l) { return QList_QSharedPointer_Handler_end(l); }
static inline IT QList_QSharedPointer_Handler_cbegin_const(QList_QSharedPointer_Handler *l) { return QList_QSharedPointer_Handler_begin(l); }
static inline IT QList_QSharedPointer_Handler_cend_const(QList_QSharedPointer_Handler *l) { return QList_QSharedPointer_Handler_end(l); }
static inline IT QList_QSharedPointer_Handler_constBegin_const(QList_QSharedPointer_Handler *l) { return QList_QSharedPointer_Handler_begin(l); }
static inline IT QList_QSharedPointer_Handler_constEnd_const(QList_QSharedPointer_Handler *l) { return QList_QSharedPointer_Handler_end(l); }
static inline RIT QList_QSharedPointer_Handler_rbegin_const(QList_QSharedPointer_Handler *l) { return QList_QSharedPointer_Handler_rbegin(l); }
static inline RIT QList_QSharedPointer_Handler_rend_const(QList_QSharedPointer_Handler *l) { return QList_QSharedPointer_Handler_rend(l); }
static inline RIT QList_QSharedPointer_Handler_crbegin_const(QList_QSharedPointer_Handler *l) { return QList_QSharedPointer_Handler_rbegin(l); }
static inline RIT QList_QSharedPointer_Handler_crend_const(QList_QSharedPointer_Handler *l) { return QList_QSharedPointer_Handler_rend(l); }
static inline BOOL op_eq__QList_QSharedPointer_Handler_iterator_QList_QSharedPointer_Handler_iterator(IT a, IT b) { return a.i == b.i; }
static inline BOOL op_ne__QList_QSharedPointer_Handler_iterator_QList_QSharedPointer_Handler_iterator(IT a, IT b) { return a.i != b.i; }
static inline BOOL QList_QSharedPointer_Handler_iterator_op_eq__QList_QSharedPointer_Handler_iterator(IT a, IT b) { return a.i == b.i; }
static inline BOOL QList_QSharedPointer_Handler_iterator_op_ne__QList_QSharedPointer_Handler_iterator(IT a, IT b) { return a.i != b.i; }
static inline BOOL QList_QSharedPointer_Handler_const_iterator_op_eq__QList_QSharedPointer_Handler_const_iterator(IT a, IT b) { return a.i == b.i; }
static inline BOOL QList_QSharedPointer_Handler_const_iterator_op_ne__QList_QSharedPointer_Handler_const_iterator(IT a, IT b) { return a.i != b.i; }
static inline BOOL op_eq__std_reverse_iterator_QList_QSharedPointer_Handler_iterator_std_reverse_iterator_QList_QSharedPointer_Handler_iterator(RIT a, RIT b) { return a.i == b.i; }
static inline BOOL op_ne__std_reverse_iterator_QList_QSharedPointer_Handler_iterator_std_reverse_iterator_QList_QSharedPointer_Handler_iterator(RIT a, RIT b) { return a.i != b.i; }
static inline BOOL QList_QSharedPointer_Handler_const_iterator_valid_range(IT a, IT b) { return QList_QSharedPointer_Handler_iterator_valid_range(a, b); }
static inline BOOL QList_QSharedPointer_Handler_const_iterator_op_ne(IT a, IT b) { return a.i != b.i; }
static inline IT *QList_QSharedPointer_Handler_const_iterator_op_inc(IT *a) { a->i++; return a; }
DEFINE_ITERATOR_ARITH(QList_QSharedPointer_Handler_iterator)
static inline long std_distance__QList_QSharedPointer_Handler_const_iterator_QList_QSharedPointer_Handler_const_iterator(IT a, IT b)
{ __CPROVER_assert(a.l == b.l, "std::distance: iterators into the same list"); return (long)b.i - (long)a.i; }
static inline long std_distance__QList_QSharedPointer_Handler_iterator_QList_QSharedPointer_Handler_iterator(IT a, IT b)
{ __CPROVER_assert(a.l == b.l, "std::distance: iterators into the same list"); return (long)b.i - (long)a.i; }
static inline long op_minus__QList_QSharedPointer_Handler_iterator_QList_QSharedPointer_Handler_iterator(IT a, IT b) { return (long)a.i - (long)b.i; }
static inline int QList_QSharedPointer_Handler_size(QList_QSharedPointer_Handler l) { return SIZE(&l); }
static inline int QList_QSharedPointer_Handler_count(QList_QSharedPointer_Handler l) { return SIZE(&l); }
static inline int QList_QSharedPointer_Handler_length(QList_QSharedPointer_Handler l) { return SIZE(&l); }
static inline BOOL QList_QSharedPointer_Handler_isEmpty(QList_QSharedPointer_Handler l) { return SIZE(&l) == 0; }

/* element access; the fetched element's class is CLASS_AT(index); x->type() is answered from it */
Handler g_elem_obj; int g_at_type;
static inline QSharedPointer_Handler QList_QSharedPointer_Handler_iterator_op_deref_value(IT it)
{ __CPROVER_assert(0 <= it.i && it.i < SIZE(it.l), "QList iterator dereferenced inside [begin,end)");
  QSharedPointer_Handler h; h.p = &g_elem_obj; h.ty = CLASS_AT(it.l, it.i); g_at_type = h.ty; return h; }
static inline QSharedPointer_Handler std_reverse_iterator_QList_QSharedPointer_Handler_iterator_op_deref_value(RIT it)
{ __CPROVER_assert(0 < it.i && it.i <= SIZE(it.l), "reverse iterator dereferenced inside [rbegin,rend)");
  QSharedPointer_Handler h; h.p = &g_elem_obj; h.ty = CLASS_AT(it.l, it.i - 1); g_at_type = h.ty; return h; }
static inline Handler *QSharedPointer_Handler_op_arrow(QSharedPointer_Handler h) { return h.p; }
/* *it on a non-const iterator (a reference to the element): the same element through a cell */
static inline QSharedPointer_Handler *QList_QSharedPointer_Handler_iterator_op_deref(IT it);
static inline QSharedPointer_Handler QList_QSharedPointer_Handler_const_iterator_op_deref(IT it) { return QList_QSharedPointer_Handler_iterator_op_deref_value(it); }
static inline IT *QList_QSharedPointer_Handler_iterator_op_inc_ref(IT *a) { a->i++; return a; }
/* erase(it): removes the element it designates, returns the iterator to the element after it (same index); like remove(): removing an
 * element never unsorts the rest nor reorders it */
static inline IT QList_QSharedPointer_Handler_erase__QList_QSharedPointer_Handler_iterator(QList_QSharedPointer_Handler *l, IT it)
{ __CPROVER_assert(it.l == l && 0 <= it.i && it.i < SIZE(l), "QList::erase(it): it designates an element of this list");
  int t = CLASS_AT(l, it.i); l->c[t]--; return it; }
static inline IT QList_QSharedPointer_Handler_erase__QList_QSharedPointer_Handler_const_iterator(QList_QSharedPointer_Handler *l, IT it)
{ return QList_QSharedPointer_Handler_erase__QList_QSharedPointer_Handler_iterator(l, it); }
static inline void QList_QSharedPointer_Handler_removeAt__int(QList_QSharedPointer_Handler *l, int i)
{ __CPROVER_assert(0 <= i && i < SIZE(l), "QList::removeAt(i): 0 <= i < size()"); int t = CLASS_AT(l, i); l->c[t]--; }
/* virtual Handler::type() of a list element */
static inline Handler_HandlerType Handler_type(Handler *self)
{ __CPROVER_assert(self == &g_elem_obj, "type() is called on the element just fetched"); return (Handler_HandlerType)g_at_type; }

/* QList::insert(iterator before, value): THE PROPERTY'S OBLIGATIONS live here */
unsigned long long g_inserts; int g_insert_class; int g_insert_pos;
static inline IT QList_QSharedPointer_Handler_insert__QList_QSharedPointer_Handler_iterator_QSharedPointer_Handler(QList_QSharedPointer_Handler *l, IT before, QSharedPointer_Handler h)
{
    __CPROVER_assert(before.l == l && 0 <= before.i && before.i <= SIZE(l), "QList::insert: iterator into this list, inside [begin,end]");
    __CPROVER_assert(TYPED(h.ty), "only typed handlers enter a sorted pipeline");
    __CPROVER_assert(START(l, h.ty) <= before.i && before.i <= CUM(l, h.ty), "Inv17 sorted: the new handler is placed inside its own class's slot (attr < filter < formatter < sink < pipeline)");
    __CPROVER_assert(before.i == CUM(l, h.ty), "Inv17 stable: the new handler is placed after every existing handler of its own class");
    __CPROVER_assert(l->c[h.ty] < LIM, "list length within the stated bound");
    g_inserts++; g_insert_class = h.ty; g_insert_pos = before.i;
    l->c[h.ty]++;
    return before;
}
/* QList::append: insert at end() */
static inline void QList_QSharedPointer_Handler_append__QSharedPointer_Handler(QList_QSharedPointer_Handler *l, QSharedPointer_Handler h)
{ IT e; e.l = l; e.i = SIZE(l); QList_QSharedPointer_Handler_insert__QList_QSharedPointer_Handler_iterator_QSharedPointer_Handler(l, e, h); }
/* insert(int i, value): Qt clamps nothing: i must be in [0,size] */
static inline void QList_QSharedPointer_Handler_insert__int_QSharedPointer_Handler(QList_QSharedPointer_Handler *l, int i, QSharedPointer_Handler h)
{ IT e; e.l = l; e.i = i; QList_QSharedPointer_Handler_insert__QList_QSharedPointer_Handler_iterator_QSharedPointer_Handler(l, e, h); }
static inline void QList_QSharedPointer_Handler_prepend__QSharedPointer_Handler(QList_QSharedPointer_Handler *l, QSharedPointer_Handler h)
{ IT e; e.l = l; e.i = 0; QList_QSharedPointer_Handler_insert__QList_QSharedPointer_Handler_iterator_QSharedPointer_Handler(l, e, h); }
static inline void QList_QSharedPointer_Handler_push_back__QSharedPointer_Handler(QList_QSharedPointer_Handler *l, QSharedPointer_Handler h)
{ IT e; e.l = l; e.i = SIZE(l); QList_QSharedPointer_Handler_insert__QList_QSharedPointer_Handler_iterator_QSharedPointer_Handler(l, e, h); }
static inline QSharedPointer_Handler QList_QSharedPointer_Handler_const_iterator_op_deref_value(IT it) { return QList_QSharedPointer_Handler_iterator_op_deref_value(it); }
static inline QSharedPointer_Handler QList_QSharedPointer_Handler_at__int(QList_QSharedPointer_Handler l, int i)
{ __CPROVER_assert(0 <= i && i < SIZE(&l), "QList::at index in range");
  QSharedPointer_Handler h; h.p = &g_elem_obj; h.ty = CLASS_AT(&l, i); g_at_type = h.ty; return h; }
static inline void QList_QSharedPointer_Handler_clear(QList_QSharedPointer_Handler *l)
{ l->c[0] = 0; l->c[1] = 0; l->c[2] = 0; l->c[3] = 0; l->c[4] = 0; l->c[5] = 0; }

/* QMutableListIterator<HandlerPtr> */
typedef struct { QList_QSharedPointer_Handler *l; int i; int can_remove; } QMutableListIterator_QSharedPointer_Handler;
typedef QMutableListIterator_QSharedPointer_Handler MIT;
static inline MIT QMutableListIterator_QSharedPointer_Handler_ctor__QList_QSharedPointer_Handler(QList_QSharedPointer_Handler *l)
{ MIT m; m.l = l; m.i = 0; m.can_remove = 0; return m; }
static inline BOOL QMutableListIterator_QSharedPointer_Handler_hasNext(MIT m) { return m.i < SIZE(m.l); }
QSharedPointer_Handler g_next_cell;
static inline QSharedPointer_Handler *QMutableListIterator_QSharedPointer_Handler_next(MIT *m)
{ __CPROVER_assert(0 <= m->i && m->i < SIZE(m->l), "QMutableListIterator::next() called with hasNext()");
  g_next_cell.p = &g_elem_obj; g_next_cell.ty = CLASS_AT(m->l, m->i); g_at_type = g_next_cell.ty; m->i++; m->can_remove = 1; return &g_next_cell; }
/* *it on a non-const iterator (a reference to the element): the same element through the ghost cell that next() uses (listed in the
 * frame of every function that walks the list) */
static inline QSharedPointer_Handler *QList_QSharedPointer_Handler_iterator_op_deref(IT it) { g_next_cell = QList_QSharedPointer_Handler_iterator_op_deref_value(it); return &g_next_cell; }
/* remove(): removes the element returned last; removing an element never unsorts the rest nor reorders it */
static inline void QMutableListIterator_QSharedPointer_Handler_remove(MIT *m)
{ __CPROVER_assert(m->can_remove && m->i >= 1, "QMutableListIterator::remove() after next()");
  int t = CLASS_AT(m->l, m->i - 1); m->l->c[t]--; m->i--; m->can_remove = 0; }
//@ ---
/* upcasts QSharedPointer<X> -> QSharedPointer<Handler>: same object, class known from the static type */
static inline QSharedPointer_Handler QSharedPointer_Handler_ctor__QSharedPointer_AttrHandler(QSharedPointer_AttrHandler x)
{ QSharedPointer_Handler h; h.p = (Handler *)x.p; /* base subobject at offset 0 */ h.ty = HT_AttrHandler; return h; }
static inline QSharedPointer_Handler QSharedPointer_Handler_ctor__QSharedPointer_Filter(QSharedPointer_Filter x)
{ QSharedPointer_Handler h; h.p = (Handler *)x.p; /* base subobject at offset 0 */ h.ty = HT_Filter; return h; }
static inline QSharedPointer_Handler QSharedPointer_Handler_ctor__QSharedPointer_Formatter(QSharedPointer_Formatter x)
{ QSharedPointer_Handler h; h.p = (Handler *)x.p; /* base subobject at offset 0 */ h.ty = HT_Formatter; return h; }
static inline QSharedPointer_Handler QSharedPointer_Handler_ctor__QSharedPointer_Sink(QSharedPointer_Sink x)
{ QSharedPointer_Handler h; h.p = (Handler *)x.p; /* base subobject at offset 0 */ h.ty = HT_Sink; return h; }
static inline QSharedPointer_Handler QSharedPointer_Handler_ctor__QSharedPointer_Pipeline(QSharedPointer_Pipeline x)
{ QSharedPointer_Handler h; h.p = (Handler *)x.p; /* base subobject at offset 0 */ h.ty = HT_Pipeline; return h; }
#define L(self) (&(self)->_base.m_handlers)
#define OC(l, k) __CPROVER_old((l)->c[k])
#define OLD_CUM1(l) (OC(l, 0) + OC(l, 1))
#define OLD_CUM2(l) (OLD_CUM1(l) + OC(l, 2))
#define OLD_CUM3(l) (OLD_CUM2(l) + OC(l, 3))
#define OLD_CUM4(l) (OLD_CUM3(l) + OC(l, 4))
#define OLD_SIZE(l) (OLD_CUM4(l) + OC(l, 5))
#define INV17(l) (WF(l) && (l)->c[HT_Formatter] <= 1)             /* sorted (by construction) + at most one formatter */
#define COUNTS_SAME_EXCEPT(l, t) (((t) == 1 || (l)->c[1] == __CPROVER_old((l)->c[1])) && ((t) == 2 || (l)->c[2] == __CPROVER_old((l)->c[2])) && \
                                  ((t) == 3 || (l)->c[3] == __CPROVER_old((l)->c[3])) && ((t) == 4 || (l)->c[4] == __CPROVER_old((l)->c[4])) && \
                                  ((t) == 5 || (l)->c[5] == __CPROVER_old((l)->c[5])) && (l)->c[0] == 0)

/* ghost witnesses (stand for "every index"): w1 for the first search of an insertBetween*, w2 for the second */
int g_w1, g_w2;

/* ---- std::find_if over the real lambdas: generated canonical loops, contracts general in the class set ---- */
#define FWD_FIND(NAME, SETP, W) \
static IT NAME(IT first, IT last, QSet_Handler_HandlerType *SETP) \
__CPROVER_requires(__CPROVER_is_fresh(first.l, sizeof(*first.l)) && last.l == first.l && __CPROVER_is_fresh(SETP, sizeof(*SETP))) \
__CPROVER_requires(WF(first.l) && 0 <= first.i && first.i <= last.i && last.i <= SIZE(first.l)) \
__CPROVER_assigns(g_at_type) \
__CPROVER_ensures(__CPROVER_return_value.l == first.l && first.i <= __CPROVER_return_value.i && __CPROVER_return_value.i <= last.i) \
__CPROVER_ensures(__CPROVER_return_value.i < last.i ==> SET_HAS(*SETP, CLASS_AT(first.l, __CPROVER_return_value.i))) \
__CPROVER_ensures((first.i <= W && W < __CPROVER_return_value.i) ==> !SET_HAS(*SETP, CLASS_AT(first.l, W)));
#define FWD_LOOP(SETP, W) \
  __CPROVER_assigns(first.i, g_at_type) \
  __CPROVER_loop_invariant(first.l == last.l && __CPROVER_loop_entry(first.i) <= first.i && first.i <= last.i) \
  __CPROVER_loop_invariant((__CPROVER_loop_entry(first.i) <= W && W < first.i) ==> !SET_HAS(*SETP, CLASS_AT(first.l, W))) \
  __CPROVER_decreases(last.i - first.i)
/* reverse: iterator value i designates element i-1; the search runs from first.i-1 down to last.i */
#define REV_FIND(NAME, SETP, W) \
static RIT NAME(RIT first, RIT last, QSet_Handler_HandlerType *SETP) \
__CPROVER_requires(__CPROVER_is_fresh(first.l, sizeof(*first.l)) && last.l == first.l && __CPROVER_is_fresh(SETP, sizeof(*SETP))) \
__CPROVER_requires(WF(first.l) && 0 <= last.i && last.i <= first.i && first.i <= SIZE(first.l)) \
__CPROVER_assigns(g_at_type) \
__CPROVER_ensures(__CPROVER_return_value.l == first.l && last.i <= __CPROVER_return_value.i && __CPROVER_return_value.i <= first.i) \
__CPROVER_ensures(__CPROVER_return_value.i > last.i ==> SET_HAS(*SETP, CLASS_AT(first.l, __CPROVER_return_value.i - 1))) \
__CPROVER_ensures((__CPROVER_return_value.i <= W && W < first.i) ==> !SET_HAS(*SETP, CLASS_AT(first.l, W)));
#define REV_LOOP(SETP, W) \
  __CPROVER_assigns(first.i, g_at_type) \
  __CPROVER_loop_invariant(first.l == last.l && last.i <= first.i && first.i <= __CPROVER_loop_entry(first.i)) \
  __CPROVER_loop_invariant((first.i <= W && W < __CPROVER_loop_entry(first.i)) ==> !SET_HAS(*SETP, CLASS_AT(first.l, W))) \
  __CPROVER_decreases(first.i - last.i)

FWD_FIND(find_if_lambda_SortedPipeline_insertBetweenNearLeft_0, rightType, g_w1)
#define LOOP_find_if_lambda_SortedPipeline_insertBetweenNearLeft_0_0 FWD_LOOP(rightType, g_w1)
REV_FIND(find_if_lambda_SortedPipeline_insertBetweenNearLeft_1, leftType, g_w2)
#define LOOP_find_if_lambda_SortedPipeline_insertBetweenNearLeft_1_0 REV_LOOP(leftType, g_w2)
REV_FIND(find_if_lambda_SortedPipeline_insertBetweenNearRight_0, leftType, g_w1)
#define LOOP_find_if_lambda_SortedPipeline_insertBetweenNearRight_0_0 REV_LOOP(leftType, g_w1)
FWD_FIND(find_if_lambda_SortedPipeline_insertBetweenNearRight_1, rightType, g_w2)
#define LOOP_find_if_lambda_SortedPipeline_insertBetweenNearRight_1_0 FWD_LOOP(rightType, g_w2)

/* ---- the typed operations: each requires and re-establishes Inv17 (induction over ALL call histories) ----
 * insertBetweenNearLeft/Right have no contract of their own: their real bodies are part of each appender's proof. */
#define APPENDER(NAME, PTRT, T, CUMT, WITNESSES) \
void NAME(SortedPipeline *self, PTRT h) \
__CPROVER_requires(__CPROVER_is_fresh(self, sizeof(*self)) && INV17(L(self)) && L(self)->c[T] < LIM) \
__CPROVER_requires(WITNESSES)                                  /* ghost only: instantiation of the witnesses */ \
__CPROVER_assigns(L(self)->c[T], g_inserts, g_insert_class, g_insert_pos, g_at_type, g_next_cell) \
/* a null handler is ignored */ \
__CPROVER_ensures(h.p == NULL ==> (L(self)->c[T] == __CPROVER_old(L(self)->c[T]) && g_inserts == __CPROVER_old(g_inserts))) \
/* otherwise exactly one handler of class T is added, at the END of the run of class T (sorted + stable: obligations of the insert model) */ \
__CPROVER_ensures(h.p != NULL ==> (L(self)->c[T] == __CPROVER_old(L(self)->c[T]) + 1 && g_inserts == __CPROVER_old(g_inserts) + 1 \
                                   && g_insert_class == T && g_insert_pos == OLD_##CUMT(L(self)))) \
__CPROVER_ensures(WF(L(self)));

APPENDER(SortedPipeline_appendAttrHandler, QSharedPointer_AttrHandler, HT_AttrHandler, CUM1, g_w1 == CUM1(L(self)) && g_w2 == CUM1(L(self)) - 1)
APPENDER(SortedPipeline_appendFilter, QSharedPointer_Filter, HT_Filter, CUM2, g_w1 == CUM2(L(self)) && g_w2 == CUM2(L(self)) - 1)
APPENDER(SortedPipeline_appendSink, QSharedPointer_Sink, HT_Sink, CUM4, g_w1 == CUM4(L(self)) && g_w2 == CUM4(L(self)) - 1)
APPENDER(SortedPipeline_appendPipeline, QSharedPointer_Pipeline, HT_Pipeline, SIZE, 1)

/* setFormatter: replaces the formatter: afterwards exactly one formatter, placed after all attrs/filters, before sinks/pipelines */
void SortedPipeline_setFormatter(SortedPipeline *self, QSharedPointer_Formatter h)
__CPROVER_requires(__CPROVER_is_fresh(self, sizeof(*self)) && INV17(L(self)))
__CPROVER_requires(g_w1 == CUM2(L(self)) - 1 && g_w2 == CUM2(L(self)))
__CPROVER_assigns(L(self)->c[HT_Formatter], g_inserts, g_insert_class, g_insert_pos, g_at_type, g_next_cell)
__CPROVER_ensures(h.p == NULL ==> (L(self)->c[HT_Formatter] == __CPROVER_old(L(self)->c[HT_Formatter]) && g_inserts == __CPROVER_old(g_inserts)))
__CPROVER_ensures(h.p != NULL ==> (L(self)->c[HT_Formatter] == 1 && g_inserts == __CPROVER_old(g_inserts) + 1
                                   && g_insert_class == HT_Formatter && g_insert_pos == OLD_CUM2(L(self))))
__CPROVER_ensures(INV17(L(self)));

#ifndef CLEAR_CASE
#define CLEAR_CASE
#endif
/* clear(type): removes exactly the handlers of that class, nothing else moves */
void SortedPipeline_clear__Handler_HandlerType(SortedPipeline *self, Handler_HandlerType type)
__CPROVER_requires(__CPROVER_is_fresh(self, sizeof(*self)) && INV17(L(self)) && TYPED(type) CLEAR_CASE)
__CPROVER_assigns(L(self)->c[type], g_at_type, g_next_cell)
__CPROVER_ensures(L(self)->c[type] == 0 && INV17(L(self)));
#define LOOP_SortedPipeline_clear__Handler_HandlerType_0 \
  __CPROVER_assigns(iter.i, iter.can_remove, L(self)->c[type], g_at_type, g_next_cell) \
  __CPROVER_loop_invariant(INV17(L(self)) && iter.l == L(self) && 0 <= iter.i && iter.i <= SIZE(L(self)) && IS_BOOL(iter.can_remove)) \
  __CPROVER_loop_invariant(iter.i <= START(L(self), type) || L(self)->c[type] == 0) \
  __CPROVER_decreases(SIZE(L(self)) - iter.i)

#define CLEARER(NAME, T) \
void NAME(SortedPipeline *self) \
__CPROVER_requires(__CPROVER_is_fresh(self, sizeof(*self)) && INV17(L(self))) \
__CPROVER_assigns(L(self)->c[T], g_at_type, g_next_cell) \
__CPROVER_ensures(L(self)->c[T] == 0 && INV17(L(self)));
CLEARER(SortedPipeline_clearAttrHandlers, HT_AttrHandler)
CLEARER(SortedPipeline_clearFilters, HT_Filter)
CLEARER(SortedPipeline_clearFormatters, HT_Formatter)
CLEARER(SortedPipeline_clearSinks, HT_Sink)
CLEARER(SortedPipeline_clearPipelines, HT_Pipeline)

void SortedPipeline_clear__void(SortedPipeline *self)
__CPROVER_requires(__CPROVER_is_fresh(self, sizeof(*self)))
__CPROVER_assigns(L(self)->c[0], L(self)->c[1], L(self)->c[2], L(self)->c[3], L(self)->c[4], L(self)->c[5])
__CPROVER_ensures(SIZE(L(self)) == 0 && INV17(L(self)));
