// C04 -- stopping asynchronous logging drains every accepted message (SAFETY half; termination is not decided) (DESIGN 3, C04)
//@ tus logger.cpp verif:ownthread_inst.cpp
//@ lower OwnThreadHandler<SimplePipeline>::process OwnThreadHandler<SimplePipeline>::Worker::customEvent OwnThreadHandler<SimplePipeline>::resetOwnThread
//@ lower OwnThreadHandler<SimplePipeline>::~OwnThreadHandler
//@ structs OwnThreadHandler<SimplePipeline>::LogEvent
//@ enforce OwnThreadHandler_SimplePipeline_resetOwnThread
//@ enforce OwnThreadHandler_SimplePipeline_dtor
//@ enforce OwnThreadHandler_SimplePipeline_process
//@ enforce OwnThreadHandler_SimplePipeline_Worker_customEvent
#define PROP_C04 1
#include "contracts/thread_part1.h"
//@ ---
#include "contracts/thread_common.h"
/* ~OwnThreadHandler(): stops the own thread the same way */
void OwnThreadHandler_SimplePipeline_dtor(OTH *self)
__CPROVER_requires(OTH_OK(self) && (self->m_thread.p == NULL || self->m_thread.p == &g_thread_obj) && IS_BOOL(g_quit_ok) && (self->m_thread.p == NULL) == (self->m_worker == NULL))
__CPROVER_assigns(OWN_DEPTH(self), PENDING(self), self->m_thread, self->m_worker, g_seen_valid, g_seen_pending, g_quits, g_quit_ok, g_terminates, g_thread_obj.running)
__CPROVER_ensures(self->m_worker == NULL && self->m_thread.p == NULL && OWN_DEPTH(self) == 0)
__CPROVER_ensures(__CPROVER_old(self->m_thread.p) != NULL ==> (g_quits == __CPROVER_old(g_quits) + 1 && PENDING(self) <= 0));
