
/* the message as the ledger sees it */
#define FM(m) ((m)->m_formattedMessage.isnull ? (m)->m_message : (m)->m_formattedMessage)
#define MSG_TIED(m) (QSTRING_VALID((m)->m_formattedMessage) && QSTRING_VALID((m)->m_message) && FM(m).tag == T_FORMATTED && FM(m).id == g_msg_fm_id && FM(m).isnull == g_msg_fm_isnull \
    && g_msg_utf8 >= 0 && g_msg_utf8 <= INT_MAXV - 64 && (m)->m_time.jd == g_msg_jd && g_msg_jd > -4000000000LL && g_msg_jd < 4000000000LL)

/* compression: at ledger level only its frame matters here (its own properties: C08, C10) */
void RotatingFileSink_RotatingFileSinkPrivate_compressFile(Priv *self, QString filePath)
__CPROVER_requires(LEDGER_OK() && LEDGER_RANGE2() && g_gz_exists == 0)
__CPROVER_assigns(g_w[0].gz, g_w[1].gz, g_new.gz, g_gz_exists, g_gz_complete, g_gz_has_all, g_comp_removes)
__CPROVER_ensures(LEDGER_OK() && LEDGER_RANGE2() && g_gz_exists == 0);
