/* Shared part 2 of the file-system units (C05, C06, C07, C09, C10): object layout stubs, the sink's representation
 * invariant, and the contracts of the loop-carrying helpers. A clause that states ONE property is wrapped in
 * ENS_Cxx(...) and exists only in that property's unit; the rest are frames and ranges every unit needs. */
#ifdef PROP_C05
#define ENS_C05(x) __CPROVER_ensures(x)
#else
#define ENS_C05(x)
#endif
#ifdef PROP_C06
#define ENS_C06(x) __CPROVER_ensures(x)
#define REQ_C06(x) __CPROVER_requires(x)
#else
#define ENS_C06(x)
#define REQ_C06(x)
#endif
#ifdef PROP_C09
#define ENS_C09(x) __CPROVER_ensures(x)
#define REQ_C09(x) __CPROVER_requires(x)
#else
#define ENS_C09(x)
#define REQ_C09(x)
#endif
#ifdef PROP_C10
#define ENS_C10(x) __CPROVER_ensures(x)
#define REQ_C10(x) __CPROVER_requires(x)
#else
#define ENS_C10(x)
#define REQ_C10(x)
#endif

/* "the next index exceeds every existing index of that day": stated by C09; C05, C07 and C10 rely on it too (a reused name is a refused
 * rename or an overwritten .gz), so their units prove and use it as well; C06 does not need it */
#define ENS_NEXTIDX(x) __CPROVER_ensures(x)     /* (the C06 unit uses this contract without re-proving it: it is C09's statement) */
typedef RotatingFileSink_RotatingFileSinkPrivate Priv;
static inline Priv *QScopedPointer_RotatingFileSink_RotatingFileSinkPrivate_op_arrow(QScopedPointer_RotatingFileSink_RotatingFileSinkPrivate d) { return d.p; }
/* qobject_cast<QFile*>(QObject*): the device of a FileSink is a QFile (created by createFilePtr) */
static inline QFile *qobject_cast_QFileP__QObjectP(QObject *o) { return (QFile *)o; }

/* the sink object graph: sink -> d -> q_ptr == sink; sink's device is the one QFile of the ledger */
/* (q_ptr == self in reality; the proofs only need that q_ptr is a sink object owning the same QFile -- a weaker, hence safe, premise) */
#define SINK_OK(self) (__CPROVER_is_fresh(self, sizeof(*(self))) && __CPROVER_is_fresh((self)->d.p, sizeof(*(self)->d.p)) \
    && __CPROVER_is_fresh((self)->d.p->q_ptr, sizeof(*(self)->d.p->q_ptr)) && (self)->d.p->q_ptr->_base._base.m_device.p == &DEV(&g_sinkfile) \
    && (self)->_base._base.m_device.p == &DEV(&g_sinkfile))
#define PRIV_OK(d) (__CPROVER_is_fresh(d, sizeof(*(d))) && __CPROVER_is_fresh((d)->q_ptr, sizeof(*(d)->q_ptr)) \
    && (d)->q_ptr->_base._base.m_device.p == &DEV(&g_sinkfile) && PRIV_FLAGS(d))
/* the private object's mutable state (everything but the configuration); a changed representation shows up here as an UNDECIDED compile error, not as a frame violation */
#define PRIV_STATE(d) (d)->m_initialized, (d)->m_currentLogDate
#define PRIV_FLAGS(d) (IS_BOOL((d)->m_rotationOnStartup) && IS_BOOL((d)->m_rotationDaily) && IS_BOOL((d)->m_compression) && IS_BOOL((d)->m_initialized) \
    && ((d)->m_currentLogDate.jd == JD_NULL || ((d)->m_currentLogDate.jd > -4000000000LL && (d)->m_currentLogDate.jd < 4000000000LL)))
#define LEDGER_OK() (DIR_INV() && ACTIVE_VALID() && IS_BOOL(g_suffix_empty) && ROT_VALID(g_new) && IS_BOOL(g_gz_exists) && IS_BOOL(g_gz_complete) && IS_BOOL(g_gz_has_all) \
    && g_new_is_w >= -1 && g_new_is_w <= 1 && NEW_CONSISTENT(0) && NEW_CONSISTENT(1))
/* if the file created by the rotation in progress is one of the witnesses, the two records agree */
#define NEW_CONSISTENT(k) (g_new_is_w != (k) || (g_w[k].exists == g_new.exists && g_w[k].jd == g_new.jd && g_w[k].idx == g_new.idx && g_w[k].gz == g_new.gz && g_w[k].recs == g_new.recs && g_w[k].size == g_new.size))
/* its name is fresh: no OTHER existing rotated file has the same day and index (C09's statement, proved for findNextIndexForDate) */
#define NEW_FRESH() ((!(g_w[0].exists && g_new_is_w != 0) || !(g_w[0].jd == g_new.jd && g_w[0].idx == g_new.idx)) && (!(g_w[1].exists && g_new_is_w != 1) || !(g_w[1].jd == g_new.jd && g_w[1].idx == g_new.idx)))
/* machine ranges (preconditions only; stated assumption: sizes and counts below 10^12) */
/* sizes and counts stay below the constant ghost bound g_B in every helper (content only MOVES between files there; it grows
 * only in write); sequence numbers and indices grow by at most one per rotation: K = slack for the few rotations of one send */
#define SZ_RANGE() (g_B > 0 && g_B <= 1000000000000LL && ROT_RANGE(g_w[0], g_B) && ROT_RANGE(g_w[1], g_B) && ROT_RANGE(g_new, g_B) && ACTIVE_RANGE(g_B))
#define LEDGER_RANGE_K(K) (SZ_RANGE() && g_seq < 1000000000000LL + (K) && IDXB(K))
#define LEDGER_RANGE() LEDGER_RANGE_K(0)          /* top level (send) */
#define LEDGER_RANGE2() LEDGER_RANGE_K(12)        /* loop-carrying helpers */

#define GZ_QUIET() (g_gz_exists == 0)
#define LEDGER_GHOSTS g_w, g_R_count, g_seq, g_A_exists, g_A_size, g_A_recs, g_A_day, g_A_mday, g_A_mtime, g_open, g_W, g_lost, g_foreign_touched, g_removes, g_renames_ok, \
    g_last_write_len, g_last_write_ok, g_writes, g_comp_removes, g_new, g_new_is_w, g_idx_bound, g_gz_exists, g_gz_complete, g_gz_has_all, g_out_hdr, g_out_payload, g_out_trailer, g_today, g_list_own_seen, g_list_next, g_first_cell, \
    DEV(&g_sinkfile).open, DEV(&g_sinkfile).mode

/* ---- findNextIndexForDate: scans the directory; result exceeds the index of every existing rotated file of that day ---- */
int RotatingFileSink_RotatingFileSinkPrivate_findNextIndexForDate(Priv *self, QDate date)
__CPROVER_requires(PRIV_OK(self) && LEDGER_OK() && LEDGER_RANGE2() && date.jd != JD_NULL)
__CPROVER_assigns(g_w[0].pos, g_w[1].pos, g_list_own_seen, g_list_next)
__CPROVER_ensures(__CPROVER_return_value >= 1 && __CPROVER_return_value <= g_idx_bound)
ENS_NEXTIDX((g_w[0].exists && g_w[0].jd == date.jd) ==> __CPROVER_return_value > g_w[0].idx)
ENS_NEXTIDX((g_w[1].exists && g_w[1].jd == date.jd) ==> __CPROVER_return_value > g_w[1].idx);
#if defined(LOOPKIND_RotatingFileSink_RotatingFileSinkPrivate_findNextIndexForDate_0_range_for) && defined(HASVAR_RotatingFileSink_RotatingFileSinkPrivate_findNextIndexForDate_maxIndex) \
    && defined(HASVAR_RotatingFileSink_RotatingFileSinkPrivate_findNextIndexForDate_entries) && defined(HASVAR_RotatingFileSink_RotatingFileSinkPrivate_findNextIndexForDate_re)
#define LOOP_RotatingFileSink_RotatingFileSinkPrivate_findNextIndexForDate_0 \
  __CPROVER_assigns(__begin2.i, maxIndex, g_list_own_seen, g_list_next) \
  __CPROVER_loop_invariant(__begin2.l == &entries._base && __end2.l == &entries._base && __end2.i == entries._base.n && 0 <= __begin2.i && __begin2.i <= __end2.i && entries._base.lo == 0) \
  __CPROVER_loop_invariant(0 <= maxIndex && maxIndex < INT_MAXV && (entries._base.kind == L_ENTRIES ==> maxIndex < g_idx_bound)) \
  __CPROVER_loop_invariant((entries._base.kind == L_ENTRIES && re.kind == RE_IDX && re.jd == date.jd && g_w[0].exists && g_w[0].jd == date.jd && g_w[0].pos < __begin2.i) ==> maxIndex >= g_w[0].idx) \
  __CPROVER_loop_invariant((entries._base.kind == L_ENTRIES && re.kind == RE_IDX && re.jd == date.jd && g_w[1].exists && g_w[1].jd == date.jd && g_w[1].pos < __begin2.i) ==> maxIndex >= g_w[1].idx) \
  __CPROVER_decreases(__end2.i - __begin2.i)
#endif

/* ---- findRotatedFiles: exactly the existing own rotated files, ordered by the comparator ---- */
QStringList RotatingFileSink_RotatingFileSinkPrivate_findRotatedFiles(Priv *self)
__CPROVER_requires(PRIV_OK(self) && LEDGER_OK() && LEDGER_RANGE2())
__CPROVER_assigns(g_w[0].pos, g_w[1].pos, g_list_own_seen, g_list_next)
__CPROVER_ensures(__CPROVER_return_value._base.kind == L_ROTLIST && __CPROVER_return_value._base.lo == 0 && IS_BOOL(__CPROVER_return_value._base.sorted))
__CPROVER_ensures(__CPROVER_return_value._base.n == g_R_count)           /* every own rotated file, nothing else */
__CPROVER_ensures(__CPROVER_return_value._base.sorted == 0 || __CPROVER_return_value._base.rm0 == g_removes)         /* sorted now: no file removed since */
ENS_C06(__CPROVER_return_value._base.sorted == 1);                        /* oldest first (needs comparator_total)  */
#if defined(LOOPKIND_RotatingFileSink_RotatingFileSinkPrivate_findRotatedFiles_0_range_for) && defined(HASVAR_RotatingFileSink_RotatingFileSinkPrivate_findRotatedFiles_result) \
    && defined(HASVAR_RotatingFileSink_RotatingFileSinkPrivate_findRotatedFiles_entries)
#define LOOP_RotatingFileSink_RotatingFileSinkPrivate_findRotatedFiles_0 \
  __CPROVER_assigns(__begin2.i, result._base.n, result._base.own, result._base.kind, g_list_own_seen, g_list_next) \
  __CPROVER_loop_invariant(__begin2.l == &entries._base && __end2.l == &entries._base && __end2.i == entries._base.n && 0 <= __begin2.i && __begin2.i <= __end2.i && entries._base.lo == 0) \
  __CPROVER_loop_invariant(entries._base.kind == L_ENTRIES && entries._base.own == g_R_count && g_list_next == __begin2.i) \
  __CPROVER_loop_invariant(result._base.kind == L_BUILD && result._base.lo == 0 && result._base.n == g_list_own_seen && result._base.own == g_list_own_seen) \
  __CPROVER_loop_invariant(0 <= g_list_own_seen && g_list_own_seen <= __begin2.i && g_list_own_seen <= entries._base.own && entries._base.n - __begin2.i >= entries._base.own - g_list_own_seen) \
  __CPROVER_decreases(__end2.i - __begin2.i)
#endif

/* ---- removeOldFiles: retention ---- */
void RotatingFileSink_RotatingFileSinkPrivate_removeOldFiles(Priv *self)
__CPROVER_requires(PRIV_OK(self) && LEDGER_OK() && LEDGER_RANGE2() && g_gz_exists == 0)      /* no compression in progress */
REQ_C10(g_lost == 0)
__CPROVER_assigns(g_w, g_R_count, g_removes, g_lost, g_foreign_touched, g_new, g_gz_exists, g_list_own_seen, g_list_next, g_first_cell)
__CPROVER_ensures(LEDGER_OK())
__CPROVER_ensures(g_foreign_touched == __CPROVER_old(g_foreign_touched))
/* N <= 0: nothing is ever deleted */
ENS_C06(self->m_maxFileCount <= 0 ==> (g_removes == __CPROVER_old(g_removes) && g_R_count == __CPROVER_old(g_R_count)))
/* N >= 2: afterwards at most N-1 rotated files; none removed if already within the limit */
ENS_C06(self->m_maxFileCount >= 2 ==> (g_R_count <= self->m_maxFileCount - 1))
ENS_C06((self->m_maxFileCount >= 2 && __CPROVER_old(g_R_count) <= self->m_maxFileCount - 1) ==> (g_removes == __CPROVER_old(g_removes) && g_R_count == __CPROVER_old(g_R_count)))
__CPROVER_ensures(LEDGER_RANGE2() && g_gz_exists == 0)
ENS_C05(g_lost == __CPROVER_old(g_lost))
ENS_C10(g_lost == __CPROVER_old(g_lost))
;
#if defined(LOOPKIND_RotatingFileSink_RotatingFileSinkPrivate_removeOldFiles_0_while) && defined(HASVAR_RotatingFileSink_RotatingFileSinkPrivate_removeOldFiles_rotatedFiles)
#define LOOP_RotatingFileSink_RotatingFileSinkPrivate_removeOldFiles_0 \
  __CPROVER_assigns(g_w, g_R_count, g_removes, g_lost, g_foreign_touched, g_new, g_gz_exists, g_first_cell, rotatedFiles._base.lo) \
  __CPROVER_loop_invariant(LEDGER_OK() && LEDGER_RANGE2() && g_gz_exists == 0 && rotatedFiles._base.kind == L_ROTLIST && IS_BOOL(rotatedFiles._base.sorted) && 0 <= rotatedFiles._base.lo && rotatedFiles._base.lo <= rotatedFiles._base.n) \
  __CPROVER_loop_invariant(REMOVE_LOOP_COUNT) \
  __CPROVER_loop_invariant(g_lost == __CPROVER_loop_entry(g_lost) && g_foreign_touched == __CPROVER_loop_entry(g_foreign_touched) && g_removes - __CPROVER_loop_entry(g_removes) == (unsigned long long)rotatedFiles._base.lo) \
  __CPROVER_decreases(rotatedFiles._base.n - rotatedFiles._base.lo)
#endif
#ifdef FS_FAILURES
#define REMOVE_LOOP_COUNT (rotatedFiles._base.n - rotatedFiles._base.lo <= g_R_count)
#else
#define REMOVE_LOOP_COUNT (rotatedFiles._base.n - rotatedFiles._base.lo == g_R_count)
#endif

/* ---- rotate(): close, rename active -> <base>.<date>.<index>[.<suffix>], optional compression, retention, reopen (append) ---- */
#ifdef PROP_C07
#define ENS_C07(x) __CPROVER_ensures(x)
#define REQ_C07(x) __CPROVER_requires(x)
#else
#define ENS_C07(x)
#define REQ_C07(x)
#endif
#define ACTIVE_UNCHANGED() (g_A_exists == __CPROVER_old(g_A_exists) && g_A_size == __CPROVER_old(g_A_size) && g_A_recs == __CPROVER_old(g_A_recs) && g_A_day == __CPROVER_old(g_A_day))
void RotatingFileSink_RotatingFileSinkPrivate_rotate(Priv *self)
__CPROVER_requires(PRIV_OK(self))
__CPROVER_requires(DIR_INV())
__CPROVER_requires(ACTIVE_VALID())
__CPROVER_requires(LEDGER_OK())
__CPROVER_requires(SZ_RANGE())
__CPROVER_requires(LEDGER_RANGE_K(8))
__CPROVER_requires(g_gz_exists == 0)
__CPROVER_requires(IS_BOOL(g_clock_frozen))
REQ_C09(g_A_recs > 0 ==> self->m_currentLogDate.jd == g_A_day)
REQ_C10(g_lost == 0)
REQ_C07(g_L == self->m_maxFileSize && (g_L <= 0 || g_A_size <= g_L || g_A_recs == 1))
__CPROVER_assigns(LEDGER_GHOSTS, self->m_currentLogDate)
__CPROVER_ensures(LEDGER_OK() && GZ_QUIET() && PRIV_FLAGS(self))
/* ranges: at most one new file, sizes only move */
__CPROVER_ensures(g_seq <= __CPROVER_old(g_seq) + 1 && g_idx_bound <= __CPROVER_old(g_idx_bound) + 1 && g_A_size <= __CPROVER_old(g_A_size) && g_A_recs <= __CPROVER_old(g_A_recs) && SZ_RANGE())
__CPROVER_ensures(g_writes == __CPROVER_old(g_writes) && g_W == __CPROVER_old(g_W) && g_today >= __CPROVER_old(g_today) && (g_clock_frozen ==> g_today == __CPROVER_old(g_today)))
/* a file-count limit of 1 disables rotation altogether: no file operation at all */
__CPROVER_ensures(self->m_maxFileCount == 1 ==> (ACTIVE_UNCHANGED() && g_open == __CPROVER_old(g_open) && g_renames_ok == __CPROVER_old(g_renames_ok) && g_removes == __CPROVER_old(g_removes) \
                                               && g_R_count == __CPROVER_old(g_R_count) && g_lost == __CPROVER_old(g_lost) && g_foreign_touched == __CPROVER_old(g_foreign_touched) \
                                               && self->m_currentLogDate.jd == __CPROVER_old(self->m_currentLogDate.jd)))
/* either the whole active content moved to a NEW rotated file and the active file is empty, or (rename refused) nothing moved */
__CPROVER_ensures(self->m_maxFileCount != 1 ==> ((g_renames_ok == __CPROVER_old(g_renames_ok) + 1 && g_A_size == 0 && g_A_recs == 0) \
                                               || (g_renames_ok == __CPROVER_old(g_renames_ok) && g_A_size == __CPROVER_old(g_A_size) && g_A_recs == __CPROVER_old(g_A_recs) && g_A_day == __CPROVER_old(g_A_day))))
#ifndef FS_FAILURES
/* no I/O failure: the file is open again afterwards (append mode keeps whatever is there) */
__CPROVER_ensures(self->m_maxFileCount != 1 ==> (g_open == 1 && g_A_exists == 1))
#ifndef FS_RENAME_MAY_FAIL
ENS_NEXTIDX((self->m_maxFileCount != 1 && __CPROVER_old(g_A_exists)) ==> g_renames_ok == __CPROVER_old(g_renames_ok) + 1)     /* a fresh name is never refused */
#endif
#endif
ENS_C05(g_lost == __CPROVER_old(g_lost) && g_foreign_touched == __CPROVER_old(g_foreign_touched))
ENS_C10(g_lost == __CPROVER_old(g_lost) && g_foreign_touched == __CPROVER_old(g_foreign_touched))
ENS_C06(self->m_maxFileCount <= 0 ==> g_removes == __CPROVER_old(g_removes))
ENS_C06(self->m_maxFileCount >= 2 ==> g_R_count <= self->m_maxFileCount - 1)
ENS_C06(g_foreign_touched == __CPROVER_old(g_foreign_touched))
ENS_C09(self->m_maxFileCount != 1 ==> self->m_currentLogDate.jd == g_today);
