/* part 1 (before the repo structs) shared by the C14/C12 units on the pattern formatter */
#ifndef VERIF_LEN_PART1_H
#define VERIF_LEN_PART1_H
#include "models/len.h"
unsigned short g_wch; int g_src_wpos; QString g_val; int g_val_kind, g_val_src;
/* std::optional<FormatSpec>: completed in contracts/len_common.h once FormatSpec is known */
typedef struct std_optional_FormattedToken_FormatSpec std_optional_FormattedToken_FormatSpec;
typedef std_optional_FormattedToken_FormatSpec std_optional_FormatSpec;
#define nullopt 0
/* the table behind the type-name helpers (utils.cpp): a brace-initialised QHash; value(key, default) is an entry or the default */
typedef struct { int n; } QHash_QtMsgType_QString;
typedef struct { QtMsgType k; QString v; } std_pair_QtMsgType_QString;
static inline std_pair_QtMsgType_QString std_pair_QtMsgType_QString_ctor__QtMsgType_QString(QtMsgType k, QString v) { std_pair_QtMsgType_QString p; p.k = k; p.v = v; return p; }
static inline QHash_QtMsgType_QString QHash_QtMsgType_QString_ctor(void) { QHash_QtMsgType_QString h; h.n = 0; return h; }
static inline void QHash_QtMsgType_QString_initlist_add__std_pair_QtMsgType_QString(QHash_QtMsgType_QString *h, std_pair_QtMsgType_QString p) { if (h->n < 1000) h->n = h->n + 1; }
static inline QString QHash_QtMsgType_QString_value__QtMsgType_QString(QHash_QtMsgType_QString h, QtMsgType k, QString d) { return nondet_int() ? d : qs_value(0, 64); }
typedef struct { int n; } QHash_QString_QtMsgType;
typedef struct { QString k; QtMsgType v; } std_pair_QString_QtMsgType;
static inline std_pair_QString_QtMsgType std_pair_QString_QtMsgType_ctor__QString_QtMsgType(QString k, QtMsgType v) { std_pair_QString_QtMsgType p; p.k = k; p.v = v; return p; }
static inline QHash_QString_QtMsgType QHash_QString_QtMsgType_ctor(void) { QHash_QString_QtMsgType h; h.n = 0; return h; }
static inline void QHash_QString_QtMsgType_initlist_add__std_pair_QString_QtMsgType(QHash_QString_QtMsgType *h, std_pair_QString_QtMsgType p) { if (h->n < 1000) h->n = h->n + 1; }
static inline QtMsgType QHash_QString_QtMsgType_value__QString_QtMsgType(QHash_QString_QtMsgType h, QString k, QtMsgType d)
{ int t = nondet_int(); __CPROVER_assume(t >= 0 && t <= 4); return nondet_int() ? d : (QtMsgType)t; }
static inline QString QString_number__unsignedlonglong(unsigned long long n) { return qs_value(1, 20); }
extern steady_time_point g_processStartTime;        /* static const auto g_processStartTime = steady_clock::now(): any time */
#endif
