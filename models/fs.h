/* 'fs' profile: QFile/QDir/QFileInfo/QRegularExpression/QDate as a GHOST LEDGER of one sink's log directory.
 * Shared by C05, C06, C07, C09, C10. Everything here is TRUSTED (axioms A-fs, A-regex, A-clock, A-locale of DESIGN 5).
 *
 * The directory is: the ACTIVE file + the sink's own ROTATED files (+ foreign files, never named here).
 * Rotated files are not stored in an array: two WITNESS files g_w[0], g_w[1] stand for "any existing rotated
 * file" / "any pair of them" (ghost instances instead of quantifiers); g_R_count is their number.
 * Obligations that belong to ONE property are written OBL(Cxx, ...) and are active only in that property's unit.
 */
#ifndef VERIF_FS_H
#define VERIF_FS_H
#define VERIF_OWN_QSTRINGLIST
#define QSTRING_EXTRA_FIELDS long long jd; int idx; int gz; int isw; long long seq; int a_tag[4]; long long a_val[4]; int nf;
#define QBYTEARRAY_EXTRA_FIELDS int nl; int src_id; int src_isnull; int enc;
#include "models/ident.h"

#ifdef PROP_C05
#define OBL_C05(c, m) __CPROVER_assert(c, "C05 " m)
#else
#define OBL_C05(c, m)
#endif
#ifdef PROP_C06
#define OBL_C06(c, m) __CPROVER_assert(c, "C06 " m)
#else
#define OBL_C06(c, m)
#endif
#ifdef PROP_C07
#define OBL_C07(c, m) __CPROVER_assert(c, "C07 " m)
#else
#define OBL_C07(c, m)
#endif
#ifdef PROP_C08
#define OBL_C08(c, m) __CPROVER_assert(c, "C08 " m)
#else
#define OBL_C08(c, m)
#endif
#ifdef PROP_C09
#define OBL_C09(c, m) __CPROVER_assert(c, "C09 " m)
#else
#define OBL_C09(c, m)
#endif
#ifdef PROP_C10
#define OBL_C10(c, m) __CPROVER_assert(c, "C10 " m)
#else
#define OBL_C10(c, m)
#endif
int nondet_int(void); long long nondet_ll(void);
/* models contain no loops: 'for each witness' is written out */
#define EACH_W(...) { enum { k = 0 }; __VA_ARGS__ } { enum { k = 1 }; __VA_ARGS__ }
#define NONDET_BOOL() (nondet_int() != 0)

/* ------------------------------------------------------------------ string tags (what a QString denotes) */
enum { T_OTHER = 0, T_LIT, T_ACTIVE, T_DIR, T_BASE, T_SUFFIX, T_DATESTR, T_ESC_BASE, T_ESC_SUFFIX, T_ESC_DATESTR,
       T_TMPL,      /* a literal with %N placeholders being filled by arg(): id = literal, a_tag/a_val/nf = arguments so far */
       T_INTARG, T_ROTNAME, T_ROTPATH, T_FOREIGN_ENTRY, T_CAPTURE, T_FORMATTED };
#define INT_MAXV 2147483647
#define JD_NULL (-9223372036854775807LL - 1)

/* the sink's file name: <dir>/<base>[.<suffix>]; whether the suffix is empty is a constant of the sink */
int g_suffix_empty;

static inline QString fs_str(int tag) { QString s; s.isnull = 0; s.id = nondet_int(); s.len = 1; s.tag = tag; s.jd = 0; s.idx = 0; s.gz = 0; s.isw = -1; s.seq = 0; s.nf = 0; return s; }
#undef QString_literal_defined
static inline QString fs_literal(int id, int len) { QString s = fs_str(T_LIT); s.id = id; s.len = len; return s; }
#define QString_literal(id, len) fs_literal(id, len)

/* ------------------------------------------------------------------ wall clock (A-clock) */
long long g_today;                         /* wall-clock day; may advance between two readings */
int g_clock_frozen;                        /* 1: midnight does not pass during the call (only to delimit a recorded finding) */
static inline QDate QDate_ctor(void) { QDate d; d.jd = JD_NULL; return d; }
static inline BOOL QDate_isValid(QDate d) { return d.jd != JD_NULL; }
static inline QDate QDate_currentDate(void)
{ long long t = nondet_ll(); __CPROVER_assume(t >= g_today && t < 4000000000LL && (!g_clock_frozen || t == g_today)); g_today = t; QDate d; d.jd = t; return d; }
static inline BOOL QDate_op_ne__QDate(QDate a, QDate b) { return a.jd != b.jd; }
static inline BOOL QDate_op_eq__QDate(QDate a, QDate b) { return a.jd == b.jd; }
static inline BOOL QDate_op_lt__QDate(QDate a, QDate b) { return a.jd < b.jd; }
static inline BOOL QDate_op_gt__QDate(QDate a, QDate b) { return a.jd > b.jd; }
static inline QDate QDateTime_date(QDateTime t) { QDate d; d.jd = t.jd; return d; }
static inline BOOL QDateTime_op_lt__QDateTime(QDateTime a, QDateTime b) { return a.msecs < b.msecs; }
static inline BOOL QDateTime_op_gt__QDateTime(QDateTime a, QDateTime b) { return a.msecs > b.msecs; }
static inline BOOL QDateTime_op_le__QDateTime(QDateTime a, QDateTime b) { return a.msecs <= b.msecs; }
static inline BOOL QDateTime_op_eq__QDateTime(QDateTime a, QDateTime b) { return a.msecs == b.msecs; }
static inline QDateTime QDateTime_currentDateTime(void)
{ QDateTime t; t.valid = 1; t.jd = QDate_currentDate().jd; t.msecs = nondet_ll(); return t; }
static inline QString QDateTime_toString__QString(QDateTime t, QString fmt) { return fs_str(T_OTHER); }
/* QDate::toString("yyyy-MM-dd"): the date string of that day (injective); any other format: unknown text */
#ifndef LIT_yyyy_MM_dd_36cd7848
#define LIT_yyyy_MM_dd_36cd7848 (-1001)
#endif
static inline QString QDate_toString__QString(QDate d, QString fmt)
{ QString s = fs_str(fmt.tag == T_LIT && fmt.id == LIT_yyyy_MM_dd_36cd7848 && d.jd != JD_NULL ? T_DATESTR : T_OTHER); s.jd = d.jd; s.len = 10; return s; }

/* ------------------------------------------------------------------ the ledger */
typedef struct { int exists; long long jd; int idx; int gz; long long seq; long long mtime;
                 long long size; long long recs; long long day; int complete; int pos; } RotFile;
int g_idx_bound;                /* every existing rotated file has index < g_idx_bound                            */
RotFile g_w[2];                 /* witnesses: two arbitrary DISTINCT existing rotated files (or fewer)          */
long long g_R_count;            /* number of existing own rotated files                                          */
long long g_seq;                /* rotation sequence number assigned last                                        */
int g_A_exists; long long g_A_size, g_A_recs, g_A_day, g_A_mday, g_A_mtime;   /* the active file                */
int g_open;                     /* the sink's QFile handle is open (append mode)                                 */
long long g_W;                  /* records written (history)                                                     */
unsigned long long g_lost;      /* loss events: records destroyed other than by retention of whole oldest files  */
unsigned long long g_foreign_touched; /* a file that is not the active file nor an own rotated file was renamed/removed/written */
unsigned long long g_comp_removes; /* removals of an uncompressed original by compressFile */
unsigned long long g_removes;   /* QFile::remove calls                                                           */
unsigned long long g_renames_ok; /* successful rotations                                                          */
/* the message being sent (ghost copy, tied to lmsg by the contract of send) */
long long g_msg_jd; int g_msg_fm_id, g_msg_fm_isnull; long long g_msg_utf8;   /* day, identity and UTF-8 length of formattedMessage() */
long long g_last_write_len; int g_last_write_ok; unsigned long long g_writes;
/* the file created by the rotation in progress (for compression) */
RotFile g_new; int g_new_is_w;  /* -1: anonymous */
int g_gz_exists, g_gz_complete, g_gz_has_all;
int g_out_hdr, g_out_payload, g_out_trailer;       /* header bytes, payload written, trailer words written to the .gz being produced */
long long g_L;                  /* copy of the size limit for Inv7 (0: none) */

#define ROT_VALID(w) (IS_BOOL((w).exists) && IS_BOOL((w).gz) && (!(w).exists || ((w).idx >= 1 && (w).idx < g_idx_bound && (w).jd != JD_NULL \
                      && (w).jd > -4000000000LL && (w).jd < 4000000000LL && (w).seq >= 1 && (w).seq <= g_seq && (w).recs >= 0 && (w).size >= 0 && ((w).recs == 0) == ((w).size == 0) && IS_BOOL((w).complete))))
#define ROT_RANGE(w, B) (!(w).exists || ((w).recs < (B) && (w).size < (B)))
#ifdef KF_C06_DISTINCT_MTIMES
#define MTIME_ORDER(a, b) ((a).mtime < (b).mtime)
#else
#define MTIME_ORDER(a, b) ((a).mtime <= (b).mtime)      /* A-fs: timestamps are monotone in rotation order, NOT strictly */
#endif
/* facts about "all existing rotated files", stated on the witnesses */
#define DIR_RANGE(B) (ROT_RANGE(g_w[0], B) && ROT_RANGE(g_w[1], B) && g_seq < (B))
#define IDXB(k) (g_idx_bound < INT_MAXV - 20 + (k))
long long g_B;                  /* stated machine range: every size / record count of the ledger is below g_B <= 10^12 (constant) */
#define DIR_INV() (ROT_VALID(g_w[0]) && ROT_VALID(g_w[1]) && g_idx_bound >= 1 && g_idx_bound < INT_MAXV && g_seq >= 0 && g_R_count >= 0 && g_R_count <= g_seq \
    && g_R_count >= g_w[0].exists + g_w[1].exists \
    && ((g_w[0].exists && g_w[1].exists) ==> (g_w[0].seq != g_w[1].seq && !(g_w[0].jd == g_w[1].jd && g_w[0].idx == g_w[1].idx) \
        && (g_w[0].seq < g_w[1].seq ==> MTIME_ORDER(g_w[0], g_w[1])) && (g_w[1].seq < g_w[0].seq ==> MTIME_ORDER(g_w[1], g_w[0])))) \
    && (g_w[0].exists ==> g_w[0].mtime <= g_A_mtime) && (g_w[1].exists ==> g_w[1].mtime <= g_A_mtime))
#define ACTIVE_RANGE(B) (g_A_size < (B) && g_A_recs < (B) && g_W < (B))
#define ACTIVE_VALID() (IS_BOOL(g_A_exists) && IS_BOOL(g_open) && g_A_size >= 0 && g_A_recs >= 0 \
    && (!g_A_exists ==> (g_A_size == 0 && g_A_recs == 0)) && (g_A_recs == 0) == (g_A_size == 0) && g_W >= g_A_recs \
    && g_A_day > -4000000000LL && g_A_day < 4000000000LL && g_today > -4000000000LL && g_today < 4000000000LL \
    && g_A_mday > -4000000000LL && g_A_mday < 4000000000LL)

/* ------------------------------------------------------------------ the sink's file object */
enum { OBJ_NONE = 0, OBJ_SINK, OBJ_IN, OBJ_OUT };
enum { E_QIODevice_OpenModeFlag_NotOpen = 0, E_QIODevice_OpenModeFlag_ReadOnly = 1, E_QIODevice_OpenModeFlag_WriteOnly = 2, E_QIODevice_OpenModeFlag_ReadWrite = 3,
       E_QIODevice_OpenModeFlag_Append = 4, E_QIODevice_OpenModeFlag_Truncate = 8, E_QIODevice_OpenModeFlag_Text = 16, E_QIODevice_OpenModeFlag_Unbuffered = 32,
       E_QIODevice_OpenModeFlag_NewOnly = 64, E_QIODevice_OpenModeFlag_ExistingOnly = 128 };
typedef int QIODevice_OpenModeFlag;
typedef struct { int v; } QFlags_QIODevice_OpenModeFlag;
static inline QFlags_QIODevice_OpenModeFlag QFlags_QIODevice_OpenModeFlag_ctor__QIODevice_OpenModeFlag(int f) { QFlags_QIODevice_OpenModeFlag r; r.v = f; return r; }
static inline QFlags_QIODevice_OpenModeFlag op_or__QIODevice_OpenModeFlag_QIODevice_OpenModeFlag(int a, int b) { QFlags_QIODevice_OpenModeFlag r; r.v = a | b; return r; }
static inline QFlags_QIODevice_OpenModeFlag QFlags_QIODevice_OpenModeFlag_op_or__QIODevice_OpenModeFlag(QFlags_QIODevice_OpenModeFlag a, int b) { a.v |= b; return a; }
static inline QFlags_QIODevice_OpenModeFlag QFlags_QIODevice_OpenModeFlag_op_or__QFlags_QIODevice_OpenModeFlag(QFlags_QIODevice_OpenModeFlag a, QFlags_QIODevice_OpenModeFlag b) { a.v |= b.v; return a; }

typedef struct { int _o; } QObject;
typedef struct { QObject _base; int obj; QString name; int open; int mode; } QIODevice;
typedef struct { QIODevice _base; } QFileDevice;
typedef struct { QFileDevice _base; } QFile;
typedef struct { QIODevice *p; } QSharedPointer_QIODevice;
typedef struct { QFile *p; } QSharedPointer_QFile;
QFile g_sinkfile;               /* the QFile owned by the sink (FileSink::file()) */
#define DEV(f) ((f)->_base._base)
static inline BOOL QSharedPointer_QIODevice_isNull(QSharedPointer_QIODevice p) { return p.p == NULL; }
static inline QIODevice *QSharedPointer_QIODevice_op_arrow(QSharedPointer_QIODevice p) { return p.p; }
static inline QIODevice *QSharedPointer_QIODevice_data(QSharedPointer_QIODevice p) { return p.p; }
static inline QIODevice *QSharedPointer_QIODevice_get(QSharedPointer_QIODevice p) { return p.p; }
static inline BOOL QSharedPointer_QIODevice_op_not(QSharedPointer_QIODevice p) { return p.p == NULL; }          /* !ptr */
static inline BOOL QSharedPointer_QIODevice_op_tobool(QSharedPointer_QIODevice p) { return p.p != NULL; }       /* if (ptr) */
static inline QString fs_active_name(void) { QString s = fs_str(T_ACTIVE); s.id = 1; s.len = 8; return s; }
static inline QString QFile_fileName(QFile *f)
{
    if (((f) == &g_sinkfile))
        return fs_active_name();
    return DEV(f).name;
}
static inline QFile QFile_ctor__QString(QString name) { QFile f; DEV(&f).obj = OBJ_NONE; DEV(&f).name = name; DEV(&f).open = 0; DEV(&f).mode = 0; return f; }

/* QFile::size(): for the open active file the size including buffered writes */
static inline long long QFile_size(QFile *f)
{
    if (((f) == &g_sinkfile) || DEV(f).name.tag == T_ACTIVE) return g_A_exists ? g_A_size : 0;
    if (DEV(f).obj == OBJ_IN) return g_new.size;
    long long n = nondet_ll(); __CPROVER_assume(n >= 0); return n;
}
static inline long long QFile_pos(QFile *f) { long long n = nondet_ll(); __CPROVER_assume(n >= 0); return n; }

/* crash points / failures: every model operation below is one step; with FS_FAILURES a file operation may fail */
#ifdef FS_FAILURES
#define MAY_FAIL() NONDET_BOOL()
#else
#define MAY_FAIL() 0
#endif
#ifdef FS_RENAME_MAY_FAIL
#define RENAME_MAY_FAIL() NONDET_BOOL()
#else
#define RENAME_MAY_FAIL() MAY_FAIL()
#endif
/* C10: at every operation boundary every flushed record is in an intact file */
#define SAFE_POINT(what) OBL_C10(g_lost == 0, "crash-safety: before/after " what " every record that reached a file is still in an intact file")

static inline void QFileDevice_close(QFileDevice *f)
{
    SAFE_POINT("close");
    if ((f == &g_sinkfile._base)) { g_open = 0; }
    if (f->_base.obj == OBJ_OUT && f->_base.open) { g_gz_complete = g_gz_has_all; }
    f->_base.open = 0;
}
static inline BOOL QFileDevice_flush(QFileDevice *f) { return 1; }
static inline BOOL QFileDevice_seek__longlong(QFileDevice *f, long long pos) { return 1; }

/* QFile::open(mode) */
static inline BOOL QFile_open__QFlags_QIODevice_OpenModeFlag(QFile *f, QFlags_QIODevice_OpenModeFlag mode)
{
    SAFE_POINT("open");
    int truncates = (mode.v & E_QIODevice_OpenModeFlag_WriteOnly) && (!(mode.v & E_QIODevice_OpenModeFlag_Append) || (mode.v & E_QIODevice_OpenModeFlag_Truncate))
                    && !(mode.v & E_QIODevice_OpenModeFlag_ReadOnly);
    if (mode.v & E_QIODevice_OpenModeFlag_Truncate) truncates = 1;
    if (((f) == &g_sinkfile) || DEV(f).name.tag == T_ACTIVE) {
        if (MAY_FAIL()) return 0;
        if (!(mode.v & E_QIODevice_OpenModeFlag_WriteOnly)) { DEV(f).open = 1; DEV(f).mode = mode.v; return 1; }
        if (truncates && g_A_recs > 0) {          /* content of the active file destroyed */
            g_lost += g_A_recs; g_A_recs = 0; g_A_size = 0;
        }
        g_A_exists = 1;
        if (((f) == &g_sinkfile)) g_open = 1;
        DEV(f).open = 1; DEV(f).mode = mode.v;
        SAFE_POINT("open of the active file");
        return 1;
    }
    if (DEV(f).name.tag == T_ROTPATH && !DEV(f).name.gz && !(mode.v & E_QIODevice_OpenModeFlag_WriteOnly)) {      /* compressFile: input */
        if (MAY_FAIL()) return 0;
        DEV(f).obj = OBJ_IN; DEV(f).open = 1; DEV(f).mode = mode.v; return 1;
    }
    if (DEV(f).name.tag == T_ROTPATH && DEV(f).name.gz && (mode.v & E_QIODevice_OpenModeFlag_WriteOnly)) {        /* compressFile: output */
        /* creating/truncating <rotated>.gz: must not destroy an existing compressed rotated file */
        EACH_W(if (g_w[k].exists && g_w[k].gz && g_w[k].jd == DEV(f).name.jd && g_w[k].idx == DEV(f).name.idx && !(g_new_is_w == k)) { g_lost += g_w[k].recs; }
        if (MAY_FAIL()) return 0;)
        DEV(f).obj = OBJ_OUT; DEV(f).open = 1; DEV(f).mode = mode.v; g_gz_exists = 1; g_gz_complete = 0; g_gz_has_all = 0; g_out_hdr = 0; g_out_payload = 0; g_out_trailer = 0;
        SAFE_POINT("creation of the compressed file");
        return 1;
    }
    if (mode.v & E_QIODevice_OpenModeFlag_WriteOnly) g_foreign_touched++;
    if (MAY_FAIL()) return 0;
    DEV(f).open = 1; DEV(f).mode = mode.v; return NONDET_BOOL();
}
static inline QString QIODevice_errorString(QIODevice *d) { return fs_str(T_OTHER); }

/* ------------------------------------------------------------------ record framing (IODeviceSink::send) */
/* QString::toLocal8Bit / toUtf8: A-locale: local 8-bit length <= UTF-8 length (equal under a UTF-8 locale) */
long long __CPROVER_uninterpreted_utf8len(int id, int len);
static inline QByteArray QString_toUtf8(QString *s)
{ QByteArray b; b.isnull = s->isnull; b.id = s->id; b.owner = 0; b.nl = 0; b.src_id = s->id; b.src_isnull = s->isnull; b.enc = 8;
  long long n = (s->tag == T_FORMATTED) ? g_msg_utf8 : nondet_ll(); __CPROVER_assume(n >= 0 && n <= INT_MAXV - 32); b.len = (int)n; return b; }
static inline QByteArray QString_toLocal8Bit(QString *s)
{ QByteArray b = QString_toUtf8(s); b.enc = 1; return b; }      /* UTF-8 locale: same bytes */
static inline int QByteArray_size(QByteArray b) { return b.len; }
static inline int QByteArray_length(QByteArray b) { return b.len; }
static inline int QString_size(QString s) { return s.len; }
static inline int QString_length(QString s) { return s.len; }
#ifndef LIT___32d70693
#define LIT___32d70693 (-1002)            /* "\n" */
#endif
static inline QByteArray *QByteArray_append__cstr(QByteArray *b, cstr c)
{ __CPROVER_assert(b->len <= INT_MAXV - 64, "QByteArray size in range"); if (c.id == LIT___32d70693 && c.len == 1) b->nl = b->nl + 1; else b->src_id = -1; b->len += c.len; return b; }
static inline QByteArray *QByteArray_append__char(QByteArray *b, char c)
{ __CPROVER_assert(b->len <= INT_MAXV - 64, "QByteArray size in range"); if (c == 10) b->nl = b->nl + 1; else b->src_id = -1; b->len += 1; return b; }

/* QIODevice::write(QByteArray) */
static inline long long QIODevice_write__QByteArray(QIODevice *d, QByteArray data)
{
    g_writes++;
    if ((d != &DEV(&g_sinkfile))) { g_foreign_touched++; return -1; }
    if (!g_open) { g_last_write_ok = 0; return -1; }              /* device not open: nothing written */
    /* one record = the local-8-bit bytes of formattedMessage() followed by exactly one '\n', written whole */
    g_last_write_ok = (data.src_id == g_msg_fm_id && data.src_isnull == g_msg_fm_isnull && data.nl == 1 && data.enc == 1 && data.len == g_msg_utf8 + 1);
    g_last_write_len = data.len;
    OBL_C09(g_A_recs == 0 || g_A_day == g_msg_jd, "records of different calendar days never share a file (active file holds another day's records)");
    g_A_exists = 1; g_A_size += data.len; g_A_recs += 1; g_A_day = g_msg_jd; g_A_mday = g_today; g_W += 1;
    { long long t = nondet_ll(); __CPROVER_assume(t >= g_A_mtime); g_A_mtime = t; }      /* time does not run backwards: every rotated file's timestamp <= the active file's */
    OBL_C07(g_L <= 0 || g_A_size <= g_L || g_A_recs == 1, "Inv7: the active file is at most L bytes unless it consists of a single record");
    return data.len;
}


/* ------------------------------------------------------------------ compressFile at ledger level (byte layout: C08) */
static inline BOOL QIODevice_putChar__char(QIODevice *d, char c)
{ if (d->obj == OBJ_OUT && d->open) { if (g_out_hdr < 100) g_out_hdr++; } else g_foreign_touched++; return 1; }
static inline long long QIODevice_write__cstr_longlong(QIODevice *d, cstr data, long long n)
{
    if (!(d->obj == OBJ_OUT && d->open)) { g_foreign_touched++; return -1; }
    if (data.ptr != NULL) { if (g_out_trailer < 100) g_out_trailer++; }            /* reinterpret_cast<const char*>(&word) */
    else if (data.id != 0 && data.owner == 0 && n >= 0 && n <= 16) { if (g_out_hdr < 100) g_out_hdr += (int)n; }   /* literal bytes */
    else g_out_payload = 1;
    g_gz_has_all = (g_out_hdr == 10 && g_out_trailer == 2);
    return n;
}
static inline QByteArray QIODevice_readAll(QIODevice *d)
{ QByteArray b; b.isnull = 0; b.id = nondet_int(); b.owner = 0; b.nl = 0; b.src_id = 0; b.src_isnull = 0; b.enc = 0;
  long long n = (d->obj == OBJ_IN) ? g_new.size : nondet_ll(); __CPROVER_assume(n >= 0 && n <= INT_MAXV - 32); b.len = (int)n; return b; }
/* read(maxlen): at most maxlen bytes from the current position: some part of the file (any content) */
static inline QByteArray QIODevice_read__longlong(QIODevice *d, long long maxlen)
{ QByteArray b; b.isnull = 0; b.id = nondet_int(); b.owner = 0; b.nl = 0; b.src_id = 0; b.src_isnull = 0; b.enc = 0;
  long long n = nondet_ll(); __CPROVER_assume(n >= 0 && n <= INT_MAXV - 32 && (maxlen < 0 || n <= maxlen)); b.len = (int)n; return b; }
static inline QByteArray qCompress__QByteArray_int(QByteArray data, int level)
{ QByteArray b = data; int n = nondet_int(); __CPROVER_assume(n >= 0 && n <= INT_MAXV - 32); b.len = n; b.id = nondet_int(); return b; }
static inline cstr QByteArray_constData(QByteArray b) { cstr c; c.isnull = 0; c.id = b.id; c.len = b.len; c.owner = 1; c.ptr = 0; return c; }
static inline cstr QByteArray_data(QByteArray *b) { return QByteArray_constData(*b); }
static inline cstr cstr_add(cstr c, long long k) { cstr r = c; r.len = (int)(c.len - k); return r; }
static inline unsigned int qToLittleEndian__unsignedint(unsigned int v) { return v; }       /* little-endian host */
static inline BOOL QFileDevice_atEnd(QFileDevice *f) { return NONDET_BOOL(); }
static inline long long QIODevice_read__charP_longlong(QIODevice *d, char *buf, long long n) { long long r = nondet_ll(); __CPROVER_assume(r >= -1 && r <= n); return r; }

/* ------------------------------------------------------------------ QFileInfo / QDir */
typedef struct { QString path; } QFileInfo;
typedef struct { QString path; } QDir;
static inline QFileInfo QFileInfo_ctor__QString(QString p) { QFileInfo f; f.path = p; return f; }
static inline QDir QDir_ctor__QString(QString p) { QDir d; d.path = p; return d; }
static inline BOOL QFileInfo_exists(QFileInfo f) { if (f.path.tag == T_ACTIVE) return g_A_exists; return NONDET_BOOL(); }
static inline long long QFileInfo_size(QFileInfo f) { if (f.path.tag == T_ACTIVE) return g_A_exists ? g_A_size : 0; long long n = nondet_ll(); __CPROVER_assume(n >= 0); return n; }
static inline QDateTime QFileInfo_lastModified(QFileInfo f)
{
    QDateTime t; t.valid = 1;
    if (f.path.tag == T_ACTIVE) { t.jd = g_A_mday; t.msecs = g_A_mtime; return t; }
    if (f.path.tag == T_ROTPATH && f.path.isw == 0) { t.msecs = g_w[0].mtime; t.jd = g_w[0].day; return t; }
    if (f.path.tag == T_ROTPATH && f.path.isw == 1) { t.msecs = g_w[1].mtime; t.jd = g_w[1].day; return t; }
    t.msecs = nondet_ll(); t.jd = nondet_ll(); return t;
}
static inline QString QFileInfo_absolutePath(QFileInfo f) { return fs_str(f.path.tag == T_ACTIVE ? T_DIR : T_OTHER); }
static inline QString QFileInfo_path(QFileInfo f) { return fs_str(f.path.tag == T_ACTIVE ? T_DIR : T_OTHER); }
static inline QString QFileInfo_completeBaseName(QFileInfo f) { return fs_str(f.path.tag == T_ACTIVE ? T_BASE : T_OTHER); }
static inline QString QFileInfo_suffix(QFileInfo f) { QString s = fs_str(f.path.tag == T_ACTIVE ? T_SUFFIX : T_OTHER); if (f.path.tag == T_ACTIVE) s.len = g_suffix_empty ? 0 : 3; return s; }
static inline BOOL QString_isEmpty_fs(QString s) { return s.len == 0; }

/* QString::arg(): fills the lowest-numbered placeholders of a template literal */
static inline QString fs_arg1(QString t, int tag, long long val)
{
    QString r = t;
    if (t.tag == T_LIT) { r.tag = T_TMPL; r.nf = 0; }
    if (r.tag != T_TMPL || r.nf >= 4) { r.tag = T_OTHER; return r; }
    r.a_tag[r.nf] = tag; r.a_val[r.nf] = val; r.nf = r.nf + 1; return r;
}
#define ARGV(s) ((s).tag == T_DATESTR || (s).tag == T_ESC_DATESTR ? (s).jd : 0)
static inline QString QString_arg__QString(QString t, QString a) { return fs_arg1(t, a.tag, ARGV(a)); }
static inline QString QString_arg__QString_QString(QString t, QString a, QString b) { return fs_arg1(fs_arg1(t, a.tag, ARGV(a)), b.tag, ARGV(b)); }
static inline QString QString_arg__QString_QString_QString(QString t, QString a, QString b, QString c) { return fs_arg1(fs_arg1(fs_arg1(t, a.tag, ARGV(a)), b.tag, ARGV(b)), c.tag, ARGV(c)); }
static inline QString QString_arg__int(QString t, int v) { return fs_arg1(t, T_INTARG, v); }
static inline QString QString_number__int(int v) { QString s = fs_str(T_INTARG); s.idx = v; return s; }

/* the four name templates (A-regex/A-format: their texts are in the evidence; an edited literal gets another identity and
 * is then NOT recognised, so the name/pattern it builds is "unknown" and the obligations below fail) */
#ifndef LIT__1__2__3_11f533be
#define LIT__1__2__3_11f533be (-1003)
#endif
#ifndef LIT__1__2__3__4_32a926c2
#define LIT__1__2__3__4_32a926c2 (-1004)
#endif
#ifndef LIT___1___2____d_____gz____382515c6
#define LIT___1___2____d_____gz____382515c6 (-1005)
#endif
#ifndef LIT___1___2____d_____3___gz____176bd6fa
#define LIT___1___2____d_____3___gz____176bd6fa (-1006)
#endif
#ifndef LIT___1___d_4___d_2___d_2____d____gz_3ed3cd27
#define LIT___1___d_4___d_2___d_2____d____gz_3ed3cd27 (-1007)
#endif
#ifndef LIT___1___d_4___d_2___d_2____d____2__1da8a1d2
#define LIT___1___d_4___d_2___d_2____d____2__1da8a1d2 (-1008)
#endif
#ifndef LIT__gz_17fed7ba
#define LIT__gz_17fed7ba (-1009)
#endif
/* is this filled template the name "<base>.<date>.<index>[.<suffix>]" of THIS sink? */
#define IS_ROT_TMPL(s) ((s).tag == T_TMPL && ( \
    (g_suffix_empty && (s).id == LIT__1__2__3_11f533be && (s).nf == 3 && (s).a_tag[0] == T_BASE && (s).a_tag[1] == T_DATESTR && (s).a_tag[2] == T_INTARG) || \
    (!g_suffix_empty && (s).id == LIT__1__2__3__4_32a926c2 && (s).nf == 4 && (s).a_tag[0] == T_BASE && (s).a_tag[1] == T_DATESTR && (s).a_tag[2] == T_INTARG && (s).a_tag[3] == T_SUFFIX)))
static inline QString QDir_filePath__QString(QDir d, QString name)
{
    QString r = name;
    if (d.path.tag != T_DIR) { r.tag = T_OTHER; return r; }
    if (IS_ROT_TMPL(name) && name.a_val[2] >= 1 && name.a_val[2] <= INT_MAXV) { r.tag = T_ROTPATH; r.jd = name.a_val[1]; r.idx = (int)name.a_val[2]; r.gz = 0; r.isw = -1; r.seq = 0; return r; }
    if (name.tag == T_ROTNAME) { r.tag = T_ROTPATH; return r; }
    r.tag = T_OTHER; return r;
}
static inline QString QDir_absoluteFilePath__QString(QDir d, QString name) { return QDir_filePath__QString(d, name); }
static inline QString op_plus__QString_QString(QString a, QString b)
{ QString r = a; if (a.tag == T_ROTPATH && !a.gz && b.tag == T_LIT && b.id == LIT__gz_17fed7ba) { r.gz = 1; return r; } r.tag = T_OTHER; return r; }

/* ------------------------------------------------------------------ regular expressions (A-regex) */
enum { RE_UNKNOWN = 0, RE_IDX, RE_ALL };
typedef struct { int kind; long long jd; } QRegularExpression;
typedef struct { int has; QString cap1; } QRegularExpressionMatch;
static inline QString QRegularExpression_escape__QString(QString s)
{ QString r = s; r.tag = s.tag == T_BASE ? T_ESC_BASE : s.tag == T_SUFFIX ? T_ESC_SUFFIX : s.tag == T_DATESTR ? T_ESC_DATESTR : T_OTHER; return r; }
static inline QRegularExpression QRegularExpression_ctor__QString(QString p)
{
    QRegularExpression re; re.kind = RE_UNKNOWN; re.jd = 0;
    if (p.tag != T_TMPL) return re;
    if (g_suffix_empty && p.id == LIT___1___2____d_____gz____382515c6 && p.nf == 2 && p.a_tag[0] == T_ESC_BASE && p.a_tag[1] == T_ESC_DATESTR) { re.kind = RE_IDX; re.jd = p.a_val[1]; }
    if (!g_suffix_empty && p.id == LIT___1___2____d_____3___gz____176bd6fa && p.nf == 3 && p.a_tag[0] == T_ESC_BASE && p.a_tag[1] == T_ESC_DATESTR && p.a_tag[2] == T_ESC_SUFFIX) { re.kind = RE_IDX; re.jd = p.a_val[1]; }
    if (g_suffix_empty && p.id == LIT___1___d_4___d_2___d_2____d____gz_3ed3cd27 && p.nf == 1 && p.a_tag[0] == T_ESC_BASE) re.kind = RE_ALL;
    if (!g_suffix_empty && p.id == LIT___1___d_4___d_2___d_2____d____2__1da8a1d2 && p.nf == 2 && p.a_tag[0] == T_ESC_BASE && p.a_tag[1] == T_ESC_SUFFIX) re.kind = RE_ALL;
    return re;
}
/* match(entry): RE_IDX(d) matches exactly this sink's rotated names of day d (plain or .gz); RE_ALL all of them; capture 1 = index */
static inline QRegularExpressionMatch QRegularExpression_match__QString(QRegularExpression re, QString e)
{
    QRegularExpressionMatch m; m.cap1 = fs_str(T_CAPTURE); m.cap1.idx = e.idx;
    int own = (e.tag == T_ROTNAME);
    if (re.kind == RE_IDX) m.has = own && e.jd == re.jd;
    else if (re.kind == RE_ALL) m.has = own;
    else m.has = NONDET_BOOL();
    return m;
}
static inline BOOL QRegularExpressionMatch_hasMatch(QRegularExpressionMatch m) { return m.has; }
static inline QString QRegularExpressionMatch_captured__int(QRegularExpressionMatch m, int n) { if (n == 1) return m.cap1; return fs_str(T_OTHER); }
static inline int QString_toInt(QString s) { if (s.tag == T_CAPTURE || s.tag == T_INTARG) return s.idx; return nondet_int(); }

/* ------------------------------------------------------------------ directory listing and string lists */
enum { L_OTHER = 0, L_ENTRIES, L_BUILD, L_ROTLIST };
typedef struct { int n; int kind; int lo; int sorted; int own; unsigned long long rm0; } QList_QString;    /* own: number of own rotated entries (L_ENTRIES); rm0: QFile::remove calls so far when the list was sorted */
typedef struct { QList_QString _base; } QStringList;
typedef struct { QList_QString *l; int i; } QList_QString_const_iterator;
typedef QList_QString_const_iterator QList_QString_iterator;
static inline QStringList QStringList_ctor(void) { QStringList l; l._base.n = 0; l._base.kind = L_BUILD; l._base.lo = 0; l._base.sorted = 0; l._base.own = 0; return l; }
typedef struct { int v; } QFlags_QDir_Filter; typedef struct { int v; } QFlags_QDir_SortFlag;
enum { E_QDir_Filter_Dirs = 0x001, E_QDir_Filter_Files = 0x002, E_QDir_Filter_Drives = 0x004, E_QDir_Filter_NoSymLinks = 0x008, E_QDir_Filter_AllEntries = 0x007, E_QDir_Filter_TypeMask = 0x00f,
       E_QDir_Filter_Readable = 0x010, E_QDir_Filter_Writable = 0x020, E_QDir_Filter_Executable = 0x040, E_QDir_Filter_Modified = 0x080, E_QDir_Filter_Hidden = 0x100, E_QDir_Filter_System = 0x200,
       E_QDir_Filter_AllDirs = 0x400, E_QDir_Filter_CaseSensitive = 0x800, E_QDir_Filter_NoDot = 0x2000, E_QDir_Filter_NoDotDot = 0x4000, E_QDir_Filter_NoDotAndDotDot = 0x6000, E_QDir_Filter_NoFilter = -1,
       E_QDir_SortFlag_Name = 0x00, E_QDir_SortFlag_Time = 0x01, E_QDir_SortFlag_Size = 0x02, E_QDir_SortFlag_Unsorted = 0x03, E_QDir_SortFlag_SortByMask = 0x03, E_QDir_SortFlag_DirsFirst = 0x04,
       E_QDir_SortFlag_Reversed = 0x08, E_QDir_SortFlag_IgnoreCase = 0x10, E_QDir_SortFlag_DirsLast = 0x20, E_QDir_SortFlag_LocaleAware = 0x40, E_QDir_SortFlag_Type = 0x80, E_QDir_SortFlag_NoSort = -1 };
typedef int QDir_Filter; typedef int QDir_SortFlag;
static inline QFlags_QDir_Filter QFlags_QDir_Filter_ctor__QDir_Filter(int f) { QFlags_QDir_Filter r; r.v = f; return r; }
static inline QFlags_QDir_SortFlag QFlags_QDir_SortFlag_ctor__QDir_SortFlag(int f) { QFlags_QDir_SortFlag r; r.v = f; return r; }
static inline QFlags_QDir_SortFlag op_or__QDir_SortFlag_QDir_SortFlag(int a, int b) { QFlags_QDir_SortFlag r; r.v = a | b; return r; }
static inline QFlags_QDir_SortFlag QFlags_QDir_SortFlag_op_or__QDir_SortFlag(QFlags_QDir_SortFlag a, int b) { a.v |= b; return a; }
static inline QFlags_QDir_Filter op_or__QDir_Filter_QDir_Filter(int a, int b) { QFlags_QDir_Filter r; r.v = a | b; return r; }
static inline QFlags_QDir_Filter QFlags_QDir_Filter_op_or__QDir_Filter(QFlags_QDir_Filter a, int b) { a.v |= b; return a; }
int g_list_own_seen, g_list_next;        /* entries visited so far by the (single, in-order) traversal of the listing */
/* QDir::entryList(QDir::Files[, sort]): every regular file of the directory once (A-fs); witnesses sit at arbitrary distinct positions */
static inline QStringList fs_entryList(QDir d, int filter)
{
    QStringList l; l._base.kind = L_ENTRIES; l._base.lo = 0; l._base.sorted = 0;
    int n = nondet_int(); __CPROVER_assume(n >= 0 && n <= 1000000000);
    l._base.n = n;
    if (d.path.tag != T_DIR || !(filter & E_QDir_Filter_Files)) { l._base.kind = L_OTHER; l._base.own = 0; return l; }
    __CPROVER_assume(g_R_count <= n);
    l._base.own = (int)g_R_count;
    EACH_W(g_w[k].pos = nondet_int(); __CPROVER_assume(!g_w[k].exists || (0 <= g_w[k].pos && g_w[k].pos < n));)
    __CPROVER_assume(!(g_w[0].exists && g_w[1].exists) || g_w[0].pos != g_w[1].pos);
    g_list_own_seen = 0; g_list_next = 0;
    return l;
}
static inline QStringList QDir_entryList__QFlags_QDir_Filter(QDir d, QFlags_QDir_Filter f) { return fs_entryList(d, f.v); }
static inline QStringList QDir_entryList__QFlags_QDir_Filter_QFlags_QDir_SortFlag(QDir d, QFlags_QDir_Filter f, QFlags_QDir_SortFlag s) { return fs_entryList(d, f.v); }
static inline QList_QString_const_iterator QList_QString_begin_const(QList_QString *l) { QList_QString_const_iterator it; it.l = l; it.i = l->lo; return it; }
static inline QList_QString_const_iterator QList_QString_end_const(QList_QString *l) { QList_QString_const_iterator it; it.l = l; it.i = l->n; return it; }
static inline QList_QString_iterator QList_QString_begin(QList_QString *l) { return QList_QString_begin_const(l); }
static inline QList_QString_iterator QList_QString_end(QList_QString *l) { return QList_QString_end_const(l); }
/* reverse iteration over a listing (crbegin/crend): {l,i} designates element i-1 */
typedef struct { QList_QString *l; int i; } std_reverse_iterator_QList_QString_const_iterator;
typedef std_reverse_iterator_QList_QString_const_iterator std_reverse_iterator_QList_QString_iterator;
typedef std_reverse_iterator_QList_QString_const_iterator QLRIT;
static inline QLRIT QList_QString_crbegin_const(QList_QString *l) { QLRIT it; it.l = l; it.i = l->n; return it; }
static inline QLRIT QList_QString_crend_const(QList_QString *l) { QLRIT it; it.l = l; it.i = l->lo; return it; }
static inline QLRIT QList_QString_rbegin_const(QList_QString *l) { return QList_QString_crbegin_const(l); }
static inline QLRIT QList_QString_rend_const(QList_QString *l) { return QList_QString_crend_const(l); }
static inline QLRIT QList_QString_rbegin(QList_QString *l) { return QList_QString_crbegin_const(l); }
static inline QLRIT QList_QString_rend(QList_QString *l) { return QList_QString_crend_const(l); }
static inline QList_QString_const_iterator QList_QString_cbegin_const(QList_QString *l) { QList_QString_const_iterator it; it.l = l; it.i = l->lo; return it; }
static inline QList_QString_const_iterator QList_QString_cend_const(QList_QString *l) { QList_QString_const_iterator it; it.l = l; it.i = l->n; return it; }
static inline QList_QString_const_iterator QList_QString_constBegin_const(QList_QString *l) { return QList_QString_cbegin_const(l); }
static inline QList_QString_const_iterator QList_QString_constEnd_const(QList_QString *l) { return QList_QString_cend_const(l); }
static inline BOOL op_ne__std_reverse_iterator_QList_QString_const_iterator_std_reverse_iterator_QList_QString_const_iterator(QLRIT a, QLRIT b) { return a.i != b.i; }
static inline BOOL op_eq__std_reverse_iterator_QList_QString_const_iterator_std_reverse_iterator_QList_QString_const_iterator(QLRIT a, QLRIT b) { return a.i == b.i; }
static inline QLRIT *std_reverse_iterator_QList_QString_const_iterator_op_inc(QLRIT *a) { a->i--; return a; }
static inline BOOL QList_QString_const_iterator_op_eq__QList_QString_const_iterator(QList_QString_const_iterator a, QList_QString_const_iterator b) { return a.i == b.i; }
static inline BOOL QList_QString_const_iterator_op_ne__QList_QString_const_iterator(QList_QString_const_iterator a, QList_QString_const_iterator b) { return a.i != b.i; }
static inline QList_QString_const_iterator *QList_QString_const_iterator_op_inc(QList_QString_const_iterator *a) { a->i++; return a; }
static inline int QList_QString_size(QList_QString l) { return l.n - l.lo; }
static inline int QList_QString_count(QList_QString l) { return l.n - l.lo; }
static inline int QList_QString_length(QList_QString l) { return l.n - l.lo; }
static inline BOOL QList_QString_isEmpty(QList_QString l) { return l.n - l.lo == 0; }
static inline QString fs_entry_of_witness(int k, int tag)
{ QString s = fs_str(tag); s.jd = g_w[k].jd; s.idx = g_w[k].idx; s.gz = g_w[k].gz; s.isw = k; s.seq = g_w[k].seq; return s; }
static inline QString fs_anonymous_rot(int tag)
{ QString s = fs_str(tag); s.jd = nondet_ll(); s.idx = nondet_int(); s.gz = NONDET_BOOL(); s.isw = -1; s.seq = nondet_ll();
  __CPROVER_assume(s.idx >= 1 && s.idx < g_idx_bound && s.jd != JD_NULL && s.seq >= 1 && s.seq <= g_seq);
  /* an anonymous file is a third file: distinct from both witnesses */
  EACH_W(__CPROVER_assume(!g_w[k].exists || (s.seq != g_w[k].seq && !(s.jd == g_w[k].jd && s.idx == g_w[k].idx)));)
  return s; }
/* *it on a directory listing (visited once, in order) */
static inline QString QList_QString_const_iterator_op_deref(QList_QString_const_iterator it)
{
    __CPROVER_assert(it.l->lo <= it.i && it.i < it.l->n, "QList<QString>::const_iterator dereferenced inside [begin,end)");
    if (it.l->kind != L_ENTRIES) return fs_str(T_OTHER);
    QString e;
    if (g_w[0].exists && it.i == g_w[0].pos) e = fs_entry_of_witness(0, T_ROTNAME);
    else if (g_w[1].exists && it.i == g_w[1].pos) e = fs_entry_of_witness(1, T_ROTNAME);
    else if (NONDET_BOOL()) e = fs_anonymous_rot(T_ROTNAME);
    else e = fs_str(T_FOREIGN_ENTRY);
    if (it.i == g_list_next) {                 /* consistent counting of the own rotated entries of this listing */
        g_list_next = it.i + 1;
        if (e.tag == T_ROTNAME && g_list_own_seen < 1000000000) g_list_own_seen++;
        __CPROVER_assume(it.l->own >= 0 && g_list_own_seen >= 0 && g_list_own_seen <= it.l->own && it.l->n - (it.i + 1) >= it.l->own - g_list_own_seen);
    }
    return e;
}
static inline QString std_reverse_iterator_QList_QString_const_iterator_op_deref(QLRIT it)
{ __CPROVER_assert(it.i > it.l->lo && it.i <= it.l->n, "reverse iterator dereferenced inside [rbegin,rend)"); QList_QString_const_iterator f; f.l = it.l; f.i = it.i > 0 ? it.i - 1 : 0; return QList_QString_const_iterator_op_deref(f); }
/* result.append(path) while collecting */
static inline void QList_QString_append__QString(QList_QString *l, QString s)
{ __CPROVER_assert(l->n < INT_MAXV, "list length in range"); if (l->kind == L_BUILD && s.tag == T_ROTPATH) l->own++; else l->kind = L_OTHER; l->n++; }

/* std::sort(result.begin(), result.end(), cmp): the REAL comparator is evaluated on an arbitrary pair of elements (the two
 * witnesses) by the generated code; the order the caller relies on is the rotation order */
#define SORT_BEGIN(IT, first, last) \
    __CPROVER_assert((first).l == (last).l && (first).i <= (last).i, "std::sort precondition: valid range"); \
    QString _sort_a = fs_entry_of_witness(0, T_ROTPATH), _sort_b = fs_entry_of_witness(1, T_ROTPATH)
#define SORT_END(IT, first, last, ab, ba, aa) \
    OBL_C06(!(aa), "comparator is irreflexive (strict weak ordering required by std::sort)"); \
    OBL_C06(!(g_w[0].exists && g_w[1].exists && g_w[0].seq < g_w[1].seq) || ((ab) && !(ba)), "comparator_total: of two rotated files the one rotated earlier sorts first (oldest first)"); \
    OBL_C06(!(g_w[0].exists && g_w[1].exists && g_w[1].seq < g_w[0].seq) || ((ba) && !(ab)), "comparator_total: of two rotated files the one rotated earlier sorts first (oldest first), swapped"); \
    (first).l->rm0 = g_removes; \
    (first).l->sorted = ((first).i == (first).l->lo && (last).i == (first).l->n) \
        && (!(g_w[0].exists && g_w[1].exists) || (g_w[0].seq < g_w[1].seq ? ((ab) && !(ba)) : ((ba) && !(ab)))); \
    if ((first).l->kind == L_BUILD) (first).l->kind = L_ROTLIST

/* first()/removeFirst() on the list returned by findRotatedFiles(): if the list is sorted by rotation order, first() is
 * the oldest existing rotated file; otherwise it is just some element */
static inline QString fs_pick_element(QList_QString *l, int oldest)
{
    QString e;
    int c = nondet_int();
    if (c == 0 && g_w[0].exists) e = fs_entry_of_witness(0, T_ROTPATH);
    else if (c == 1 && g_w[1].exists) e = fs_entry_of_witness(1, T_ROTPATH);
    else { __CPROVER_assume(g_R_count > g_w[0].exists + g_w[1].exists); e = fs_anonymous_rot(T_ROTPATH); }
    if (oldest) { EACH_W(__CPROVER_assume(!g_w[k].exists || e.isw == k || e.seq < g_w[k].seq);) }
    return e;
}
QString g_first_cell;
static inline QString *QList_QString_first(QList_QString *l)
{
    __CPROVER_assert(l->n - l->lo > 0, "QList::first() on a non-empty list");
    if (l->kind == L_ROTLIST) g_first_cell = fs_pick_element(l, l->sorted); else g_first_cell = fs_str(T_OTHER);
    return &g_first_cell;
}
static inline QString *QList_QString_last(QList_QString *l)
{ __CPROVER_assert(l->n - l->lo > 0, "QList::last() on a non-empty list"); if (l->kind == L_ROTLIST) g_first_cell = fs_pick_element(l, 0); else g_first_cell = fs_str(T_OTHER); return &g_first_cell; }
static inline QString QList_QString_at__int(QList_QString l, int i)
{ __CPROVER_assert(0 <= i && i < l.n - l.lo, "QList::at index in range"); /* the list of rotated files, oldest first: element 0 is the oldest existing one; element lo+i is the oldest EXISTING one once exactly the
   * lo+i files in front of it have been removed (every removal is checked to take the oldest existing file: OBL_C06 at QFile::remove) */
  if (l.kind == L_ROTLIST) return fs_pick_element(&l, l.sorted && (i == 0 || (unsigned long long)l.lo + (unsigned long long)i == g_removes - l.rm0));
  if (l.kind == L_ENTRIES) { QList_QString_const_iterator it; it.l = &l; it.i = l.lo + i; return QList_QString_const_iterator_op_deref(it); }     /* a directory listing read by index: the same entries as by iterator */
  return fs_str(T_OTHER); }
static inline QString QList_QString_op_index__int(QList_QString l, int i) { return QList_QString_at__int(l, i); }
static inline QString QList_QString_value__int(QList_QString l, int i) { if (i < 0 || i >= l.n - l.lo) return fs_str(T_OTHER); return QList_QString_at__int(l, i); }
static inline QString QList_QString_takeFirst(QList_QString *l)
{ QString s = *QList_QString_first(l); l->lo++; return s; }
static inline void QList_QString_removeFirst(QList_QString *l) { __CPROVER_assert(l->n - l->lo > 0, "QList::removeFirst() on a non-empty list"); l->lo++; }
static inline void QList_QString_removeLast(QList_QString *l) { __CPROVER_assert(l->n - l->lo > 0, "QList::removeLast() on a non-empty list"); l->n--; l->sorted = 0; }
static inline void QList_QString_removeAt__int(QList_QString *l, int i) { __CPROVER_assert(0 <= i && i < l->n - l->lo, "QList::removeAt index in range"); if (i == 0) l->lo++; else { l->n--; l->sorted = 0; } }

/* ------------------------------------------------------------------ rename / remove */
static inline void fs_rechoose_witness_to_new(void)
{   /* the set of existing rotated files grew: "an arbitrary existing file" may now be the new one */
    g_new_is_w = -1;
    if (!g_w[0].exists && NONDET_BOOL()) { g_w[0] = g_new; g_new_is_w = 0; }
    else if (!g_w[1].exists && NONDET_BOOL()) { g_w[1] = g_new; g_new_is_w = 1; }
    else if (NONDET_BOOL()) { if (NONDET_BOOL()) { g_w[0] = g_new; g_new_is_w = 0; } else { g_w[1] = g_new; g_new_is_w = 1; } }
}
/* QFile::rename(from, to): atomic; refuses an existing target; on failure nothing changes (A-fs) */
static inline BOOL QFile_rename__QString_QString(QString from, QString to)
{
    SAFE_POINT("rename");
    if (from.tag != T_ACTIVE) { g_foreign_touched++; return NONDET_BOOL(); }
    OBL_C06(to.tag == T_ROTPATH && !to.gz, "the active file is renamed only to a name of this sink's rotated-name scheme");
    OBL_C09(to.tag == T_ROTPATH && !to.gz, "the rotated file gets a name of the scheme <base>.<date>.<index>[.<suffix>]");
    if (to.tag != T_ROTPATH || to.gz) { g_foreign_touched++; if (NONDET_BOOL()) return 0; g_lost += g_A_recs; g_A_exists = 0; g_A_size = 0; g_A_recs = 0; return 1; }
    OBL_C09(g_A_recs == 0 || to.jd == g_A_day, "the rotated file's name carries the day its records were written");
    EACH_W(OBL_C09(!(g_w[k].exists && g_w[k].jd == to.jd) || to.idx > g_w[k].idx, "rotated names are never reused: the new index exceeds the index of every existing rotated file (plain or .gz) of that day");)
    if (!g_A_exists) return 0;
    EACH_W(if (g_w[k].exists && !g_w[k].gz && g_w[k].jd == to.jd && g_w[k].idx == to.idx) return 0;)     /* target exists */
    if (RENAME_MAY_FAIL()) return 0;
    g_seq++;
    g_new.exists = 1; g_new.jd = to.jd; g_new.idx = to.idx; g_new.gz = 0; g_new.seq = g_seq; g_new.mtime = g_A_mtime; g_new.size = g_A_size;
    g_new.recs = g_A_recs; g_new.day = g_A_day; g_new.complete = 1; g_new.pos = 0;
    /* a .gz twin of the same (day, index) would later be overwritten by compression */
    g_R_count++; g_renames_ok++; if (to.idx >= g_idx_bound) g_idx_bound = to.idx < INT_MAXV ? to.idx + 1 : INT_MAXV;
    OBL_C07(g_L <= 0 || g_new.size <= g_L || g_new.recs == 1, "Inv7: a rotated file is at most L bytes unless it consists of a single record");
    g_A_exists = 0; g_A_size = 0; g_A_recs = 0;
    fs_rechoose_witness_to_new();
    SAFE_POINT("rename (done)");
    return 1;
}
/* QFile::remove(path) */
static inline BOOL QFile_remove__QString(QString path)
{
    SAFE_POINT("remove");
    OBL_C06(path.tag == T_ROTPATH, "only files of this sink's rotated-name scheme are ever removed (never the active file, never a foreign file)");
    if (path.tag == T_ACTIVE) { g_removes++; if (MAY_FAIL()) return 0; g_lost += g_A_recs; g_A_exists = 0; g_A_size = 0; g_A_recs = 0; return 1; }
    if (path.tag != T_ROTPATH) { g_removes++; g_foreign_touched++; return NONDET_BOOL(); }
    /* the file produced by the rotation in progress (still uncompressed) may disappear only once its compressed copy is complete */
    if (g_new.exists && !g_new.gz && !path.gz && path.jd == g_new.jd && path.idx == g_new.idx)
        OBL_C08(g_gz_exists && g_gz_complete, "the uncompressed rotated file disappears only once the compressed one is complete (written and closed)");
    /* compressFile removing the uncompressed original: only once the compressed copy is complete */
    if (g_new.exists && !path.gz && path.jd == g_new.jd && path.idx == g_new.idx && g_gz_exists) {
        g_comp_removes++;
        if (MAY_FAIL()) { g_gz_exists = 0; return 0; }      /* the original stays; the complete .gz is a duplicate copy the ledger no longer follows */
        if (!(g_gz_complete)) g_lost += g_new.recs;
        g_new.gz = 1; if (g_new_is_w == 0) g_w[0].gz = 1; if (g_new_is_w == 1) g_w[1].gz = 1;
        g_gz_exists = 0; g_R_count += 0;
        SAFE_POINT("remove of the uncompressed original");
        return 1;
    }
    /* retention: the removed file must be the OLDEST existing rotated file */
    g_removes++;
    EACH_W(OBL_C06(!(g_w[k].exists && path.isw != k) || g_w[k].seq > path.seq, "retention removes only the oldest rotated file (an older or equal-age file still exists)");)
    if (MAY_FAIL()) return 0;
    if (path.isw == 0) g_w[0].exists = 0; if (path.isw == 1) g_w[1].exists = 0;
    if (g_new.exists && path.jd == g_new.jd && path.idx == g_new.idx) g_new.exists = 0;
    g_R_count--;
    SAFE_POINT("remove (done)");
    return 1;
}
/* QFile::remove() (member): removes the file the object names */
static inline BOOL QFile_remove(QFile *f) { if (f == &g_sinkfile) return QFile_remove__QString(fs_active_name()); return QFile_remove__QString(DEV(f).name); }
static inline BOOL QFile_rename__QString(QFile *f, QString to) { if (f == &g_sinkfile) return QFile_rename__QString_QString(fs_active_name(), to); return QFile_rename__QString_QString(DEV(f).name, to); }
static inline BOOL QFile_exists__QString(QString p) { if (p.tag == T_ACTIVE) return g_A_exists; return NONDET_BOOL(); }
#endif
