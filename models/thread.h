/* 'thread' profile: Qt threading primitives as SEQUENTIAL ghost state (lock depths, pending counter, posted events).
 * TRUSTED (axioms A-mutex, A-seqcst, A-queue of DESIGN 5). No interleaving is explored: the contracts state the lock/event
 * DISCIPLINE from which C02-C04 follow under those axioms. */
#ifndef VERIF_THREAD_H
#define VERIF_THREAD_H
#include "models/ident.h"
int nondet_int(void);

/* ---- mutexes: depth of the current thread's holds ---- */
typedef struct { int depth; } QBasicMutex;
typedef struct { QBasicMutex _base; } QMutex;
typedef struct { int depth; } QRecursiveMutex;
typedef struct { QBasicMutex *m; QRecursiveMutex *rm; int locked; } QMutexLocker;
static inline QMutexLocker QMutexLocker_ctor__QBasicMutexP(QBasicMutex *m)
{ QMutexLocker l; l.m = m; l.rm = NULL; l.locked = 0;
  if (m) { __CPROVER_assert(m->depth == 0, "a non-recursive QMutex is not locked again by the thread that holds it (self-deadlock)"); m->depth = 1; l.locked = 1; } return l; }
static inline QMutexLocker QMutexLocker_ctor__QRecursiveMutexP(QRecursiveMutex *m)
{ QMutexLocker l; l.m = NULL; l.rm = m; l.locked = 0; if (m) { __CPROVER_assert(m->depth >= 0 && m->depth < 1000000, "lock depth in range"); m->depth++; l.locked = 1; } return l; }
int g_seen_valid, g_seen_pending;      /* the pending count read last, still valid (no unlock since) */
static inline void QMutexLocker_unlock(QMutexLocker *l)
{ if (l->locked) { if (l->m) l->m->depth--; if (l->rm) l->rm->depth--; l->locked = 0; g_seen_valid = 0; } }
static inline void QMutexLocker_relock(QMutexLocker *l)
{ if (!l->locked) { if (l->m) { __CPROVER_assert(l->m->depth == 0, "relock of a QMutex the thread does not hold"); l->m->depth = 1; } if (l->rm) l->rm->depth++; l->locked = 1; } }
static inline void QMutexLocker_dtor(QMutexLocker *l) { QMutexLocker_unlock(l); }
static inline void QRecursiveMutex_lock(QRecursiveMutex *m) { m->depth++; }
static inline void QRecursiveMutex_unlock(QRecursiveMutex *m) { __CPROVER_assert(m->depth >= 1, "unlock of a held mutex"); m->depth--; g_seen_valid = 0; }

/* std::unique_lock<QRecursiveMutex>(m, timeout) / std::lock_guard: timed acquisition may FAIL (owns_lock() false) */
typedef struct { long long ms; } chrono_duration;
static inline chrono_duration chrono_duration_ctor__int(int v) { chrono_duration d; d.ms = v; return d; }
static inline chrono_duration chrono_duration_ctor__longlong(long long v) { chrono_duration d; d.ms = v; return d; }
typedef struct { QRecursiveMutex *m; int owns; } std_unique_lock_QRecursiveMutex;
static inline std_unique_lock_QRecursiveMutex std_unique_lock_QRecursiveMutex_ctor__QRecursiveMutex(QRecursiveMutex *m) { std_unique_lock_QRecursiveMutex l; l.m = m; l.owns = 1; m->depth++; return l; }
static inline std_unique_lock_QRecursiveMutex std_unique_lock_QRecursiveMutex_ctor__QRecursiveMutex_chrono_duration(QRecursiveMutex *m, chrono_duration d)
{ std_unique_lock_QRecursiveMutex l; l.m = m; l.owns = nondet_int() != 0; if (l.owns) m->depth++; return l; }
static inline BOOL std_unique_lock_QRecursiveMutex_owns_lock(std_unique_lock_QRecursiveMutex l) { return l.owns; }
static inline BOOL std_unique_lock_QRecursiveMutex_op_tobool(std_unique_lock_QRecursiveMutex l) { return l.owns; }
static inline void std_unique_lock_QRecursiveMutex_unlock(std_unique_lock_QRecursiveMutex *l) { if (l->owns) { l->m->depth--; l->owns = 0; g_seen_valid = 0; } }
static inline void std_unique_lock_QRecursiveMutex_dtor(std_unique_lock_QRecursiveMutex *l) { std_unique_lock_QRecursiveMutex_unlock(l); }
typedef std_unique_lock_QRecursiveMutex std_lock_guard_QRecursiveMutex;
static inline std_lock_guard_QRecursiveMutex std_lock_guard_QRecursiveMutex_ctor__QRecursiveMutex(QRecursiveMutex *m) { return std_unique_lock_QRecursiveMutex_ctor__QRecursiveMutex(m); }
static inline void std_lock_guard_QRecursiveMutex_dtor(std_lock_guard_QRecursiveMutex *l) { std_unique_lock_QRecursiveMutex_unlock(l); }
static inline BOOL QRecursiveMutex_tryLock__int(QRecursiveMutex *m, int ms) { if (nondet_int()) { m->depth++; return 1; } return 0; }
static inline BOOL QRecursiveMutex_tryLock(QRecursiveMutex *m) { if (nondet_int()) { m->depth++; return 1; } return 0; }
static inline BOOL QRecursiveMutex_try_lock(QRecursiveMutex *m) { if (nondet_int()) { m->depth++; return 1; } return 0; }

/* ---- atomics ---- */
typedef struct { int v; } QBasicAtomicInteger_int;
typedef struct { QBasicAtomicInteger_int _base; } QAtomicInteger_int;
typedef struct { QAtomicInteger_int _base; } QAtomicInt;
static inline int QBasicAtomicInteger_int_fetchAndAddOrdered__int(QBasicAtomicInteger_int *a, int d)
{ int o = a->v; __CPROVER_assert(d >= 0 ? a->v <= 2147483647 - d : a->v >= -2147483647 - d, "pending counter in int range"); a->v += d; return o; }
static inline int QBasicAtomicInteger_int_fetchAndSubOrdered__int(QBasicAtomicInteger_int *a, int d)
{ int o = a->v; __CPROVER_assert(a->v >= -2147483647 + d, "pending counter in int range"); a->v -= d; return o; }
static inline int QBasicAtomicInteger_int_loadAcquire(QBasicAtomicInteger_int a) { g_seen_pending = a.v; g_seen_valid = 1; return a.v; }
static inline int QBasicAtomicInteger_int_loadRelaxed(QBasicAtomicInteger_int a) { g_seen_pending = a.v; g_seen_valid = 1; return a.v; }
static inline int QBasicAtomicInteger_int_load(QBasicAtomicInteger_int a) { g_seen_pending = a.v; g_seen_valid = 1; return a.v; }

/* ---- events and the posted-event queue (A-queue: FIFO per receiver among equal priorities, delivered on the receiver's thread) ---- */
typedef int QEvent_Type;
typedef struct { int _o; } QObject;
typedef struct { QEvent_Type t; } QEvent;
enum { E_Qt_EventPriority_HighEventPriority = 1, E_Qt_EventPriority_NormalEventPriority = 0, E_Qt_EventPriority_LowEventPriority = -1 };
typedef int Qt_EventPriority;
static inline QEvent QEvent_ctor__QEvent_Type(QEvent_Type t) { QEvent e; e.t = t; return e; }
static inline QEvent_Type QEvent_type(QEvent *e) { return e->t; }
int g_logevent_type;                   /* the value QEvent::registerEventType() handed out (constant once registered) */
static inline int QEvent_registerEventType(void) { return g_logevent_type; }
unsigned long long g_posts; QObject *g_post_receiver; QEvent *g_post_event; int g_post_priority; int g_post_under_lock, g_post_pending_before;

/* ---- threads ---- */
typedef struct { int running; } QThread;
typedef struct { QThread *p; } QPointer_QThread;
QThread g_thread_obj;
static inline QThread *QPointer_QThread_op_conv_QThreadP(QPointer_QThread p) { return p.p; }
static inline QThread *QPointer_QThread_op_arrow(QPointer_QThread p) { return p.p; }
static inline QThread *QPointer_QThread_data(QPointer_QThread p) { return p.p; }
static inline BOOL QPointer_QThread_isNull(QPointer_QThread p) { return p.p == NULL; }
static inline void QPointer_QThread_clear(QPointer_QThread *p) { p->p = NULL; }
static inline BOOL QThread_isRunning(QThread *t) { return t->running != 0; }
static inline void QThread_msleep__unsignedlong(unsigned long ms) { }
static inline void *QThread_currentThreadId(void) { return (void *)0; }
/* QThread::currentThread(): the caller runs on ANY thread -- possibly the handler's own worker thread (a sink that logs) */
QThread g_other_thread_obj;
int nondet_int(void);
static inline QThread *QThread_currentThread(void) { return nondet_int() ? &g_thread_obj : &g_other_thread_obj; }
unsigned long long g_quits, g_terminates; int g_quit_ok;
#endif
