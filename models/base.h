/* Shared base of every model profile: scalar conventions, abstract C strings, Qt enums.
 * Everything in models/ is TRUSTED: assumed contracts of Qt/std/OS, never proved (DESIGN 2.3). */
#ifndef VERIF_BASE_H
#define VERIF_BASE_H
#include <stddef.h>
#define NULL ((void *)0)
#define IS_BOOL(x) ((x) == 0 || (x) == 1)
/* precondition of a lemma harness (the only place outside models/ where an assumption may appear) */
#define LEMMA_REQUIRES(x) __CPROVER_assume(x)
/* vacuity guard: every lemma harness ends with LEMMA_END; the canary run must report it FAILED */
#ifdef CANARY
#define LEMMA_END __CPROVER_assert(0, "canary: end of lemma reachable")
#else
#define LEMMA_END
#endif

/* const char * : abstract C string (content identity, length, null-ness, owner tag for C03) */
typedef struct { int isnull; int id; int len; int owner; const void *ptr; } cstr;   /* ptr: set only by reinterpret_cast<const char*>(&object) */
static inline cstr cstr_lit(int id, int len) { cstr c; c.isnull = 0; c.id = id; c.len = len; c.owner = 0; c.ptr = 0; return c; }
static inline cstr cstr_from_ptr(const void *p, unsigned long n) { cstr c; c.isnull = 0; c.id = 0; c.len = (int)n; c.owner = 0; c.ptr = p; return c; }
static inline cstr cstr_null(void) { cstr c; c.isnull = 1; c.id = 0; c.len = 0; c.owner = 0; c.ptr = 0; return c; }
#define CSTR_VALID(c) (IS_BOOL((c).isnull) && (c).len >= 0 && ((c).isnull ? (c).len == 0 : 1))
/* equality of the text a C string denotes (null == empty, as QString::fromUtf8/QByteArray(const char*) treat them) */
#define CSTR_SAME_TEXT(a, b) (((a).len == 0 && (b).len == 0) || ((a).len == (b).len && (a).id == (b).id))

/* a lambda used as a value: the identity of the lowered lambda function (LAMBDA_<name> enumerators are generated per unit) */
typedef struct { int id; } lambda_t;
static inline lambda_t lambda_value(int id) { lambda_t l; l.id = id; return l; }

typedef enum { QtDebugMsg = 0, QtWarningMsg = 1, QtCriticalMsg = 2, QtFatalMsg = 3, QtInfoMsg = 4 } QtMsgType;
#define E_QtMsgType_QtDebugMsg QtDebugMsg
#define E_QtMsgType_QtWarningMsg QtWarningMsg
#define E_QtMsgType_QtCriticalMsg QtCriticalMsg
#define E_QtMsgType_QtFatalMsg QtFatalMsg
#define E_QtMsgType_QtInfoMsg QtInfoMsg
#define QTMSGTYPE_VALID(t) ((t) == QtDebugMsg || (t) == QtWarningMsg || (t) == QtCriticalMsg || (t) == QtFatalMsg || (t) == QtInfoMsg)

typedef enum { HT_Handler = 0, HT_AttrHandler = 1, HT_Filter = 2, HT_Formatter = 3, HT_Sink = 4, HT_Pipeline = 5 } Handler_HandlerType;
#define E_Handler_HandlerType_Handler HT_Handler
#define E_Handler_HandlerType_AttrHandler HT_AttrHandler
#define E_Handler_HandlerType_Filter HT_Filter
#define E_Handler_HandlerType_Formatter HT_Formatter
#define E_Handler_HandlerType_Sink HT_Sink
#define E_Handler_HandlerType_Pipeline HT_Pipeline

typedef struct { int line; cstr file; cstr function; cstr category; int version; } QMessageLogContext;
static inline QMessageLogContext QMessageLogContext_ctor__cstr_int_cstr_cstr(cstr file, int line, cstr function, cstr category)
{ QMessageLogContext c; c.version = 2; c.line = line; c.file = file; c.function = function; c.category = category; return c; }

/* qMin/qMax/std::min/std::max/qBound/qAbs on the integer types the library uses (pure) */
#define DEFINE_MINMAX(T, S) \
static inline T qMin__##S##_##S(T a, T b) { return a < b ? a : b; } static inline T qMax__##S##_##S(T a, T b) { return a < b ? b : a; } \
static inline T std_min__##S##_##S(T a, T b) { return b < a ? b : a; } static inline T std_max__##S##_##S(T a, T b) { return a < b ? b : a; } \
static inline T qBound__##S##_##S##_##S(T lo, T v, T hi) { return v < lo ? lo : (hi < v ? hi : v); }
DEFINE_MINMAX(int, int) DEFINE_MINMAX(long long, longlong) DEFINE_MINMAX(unsigned long, unsignedlong) DEFINE_MINMAX(unsigned int, unsignedint) DEFINE_MINMAX(long, long) DEFINE_MINMAX(unsigned long long, unsignedlonglong)
static inline int qAbs__int(int a) { __CPROVER_assert(a != (-2147483647 - 1), "qAbs(INT_MIN) overflows"); return a < 0 ? -a : a; }

/* std::reverse_iterator over an abstract list whose const_iterator is {LIST *l; int i;}: the reverse iterator {l, i} has base() index i and
 * designates element i-1 (crbegin: i = n, crend: i = 0).  DEREF_FWD is the unit's dereference model of the forward const_iterator. */
#define DEFINE_REVERSE_ITERATORS(LIST, ELEM, DEREF_FWD) \
typedef struct { LIST *l; int i; } std_reverse_iterator_##LIST##_const_iterator; \
static inline std_reverse_iterator_##LIST##_const_iterator LIST##_crbegin_const(LIST *l) { std_reverse_iterator_##LIST##_const_iterator r; r.l = l; r.i = l->n; return r; } \
static inline std_reverse_iterator_##LIST##_const_iterator LIST##_crend_const(LIST *l) { std_reverse_iterator_##LIST##_const_iterator r; r.l = l; r.i = 0; return r; } \
static inline std_reverse_iterator_##LIST##_const_iterator LIST##_rbegin_const(LIST *l) { return LIST##_crbegin_const(l); } \
static inline std_reverse_iterator_##LIST##_const_iterator LIST##_rend_const(LIST *l) { return LIST##_crend_const(l); } \
static inline BOOL op_ne__std_reverse_iterator_##LIST##_const_iterator_std_reverse_iterator_##LIST##_const_iterator(std_reverse_iterator_##LIST##_const_iterator a, std_reverse_iterator_##LIST##_const_iterator b) { return a.i != b.i; } \
static inline BOOL op_eq__std_reverse_iterator_##LIST##_const_iterator_std_reverse_iterator_##LIST##_const_iterator(std_reverse_iterator_##LIST##_const_iterator a, std_reverse_iterator_##LIST##_const_iterator b) { return a.i == b.i; } \
static inline std_reverse_iterator_##LIST##_const_iterator *std_reverse_iterator_##LIST##_const_iterator_op_inc(std_reverse_iterator_##LIST##_const_iterator *a) \
{ __CPROVER_assert(a->i > 0, "reverse iterator: ++ on an iterator that is not rend()"); a->i = a->i - 1; return a; } \
static inline ELEM std_reverse_iterator_##LIST##_const_iterator_op_deref(std_reverse_iterator_##LIST##_const_iterator it) \
{ __CPROVER_assert(it.i > 0 && it.i <= it.l->n, "reverse iterator dereferenced inside [rbegin,rend)"); LIST##_const_iterator f; f.l = it.l; f.i = it.i - 1; return DEREF_FWD(f); }

/* random-access arithmetic and ordering of an index iterator {LIST *l; int i;} (QList iterators are random access) */
#define DEFINE_ITERATOR_ARITH(IT) \
static inline IT IT##_op_minus__int(IT a, int n) { a.i = a.i - n; return a; } \
static inline IT IT##_op_minus__longlong(IT a, long long n) { a.i = (int)((long long)a.i - n); return a; } \
static inline IT IT##_op_plus__int(IT a, int n) { a.i = a.i + n; return a; } \
static inline IT IT##_op_plus__longlong(IT a, long long n) { a.i = (int)((long long)a.i + n); return a; } \
static inline IT *IT##_op_dec(IT *a) { a->i = a->i - 1; return a; } \
static inline IT *IT##_op_addassign__int(IT *a, int n) { a->i = a->i + n; return a; } \
static inline IT *IT##_op_subassign__int(IT *a, int n) { a->i = a->i - n; return a; } \
static inline BOOL IT##_op_lt__##IT(IT a, IT b) { return a.i < b.i; } \
static inline BOOL IT##_op_gt__##IT(IT a, IT b) { return a.i > b.i; } \
static inline BOOL IT##_op_le__##IT(IT a, IT b) { return a.i <= b.i; } \
static inline BOOL IT##_op_ge__##IT(IT a, IT b) { return a.i >= b.i; }

#ifndef FIND_IF_REQUIRES
/* IT##_valid_range(first,last): last is reachable from first by ++ (forward: first.i <= last.i; reverse: first.i >= last.i) */
#define FIND_IF_REQUIRES(IT, first, last) __CPROVER_assert(IT##_valid_range(first, last), "std::find_if precondition: [first,last) is a valid range (last reachable from first)")
#endif
#endif
