/* 'ident' profile: Qt value types as content identities (DESIGN 2.3). TRUSTED. */
#ifndef VERIF_IDENT_H
#define VERIF_IDENT_H
#include "models/base.h"

/* QString: id = uninterpreted content identity (equal ids <=> equal text, for non-empty text);
 * isnull distinguishes the null string (which is also empty); len = number of UTF-16 units. */
#ifndef QSTRING_EXTRA_FIELDS
#define QSTRING_EXTRA_FIELDS
#endif
typedef struct { int isnull; int id; int len; int tag; QSTRING_EXTRA_FIELDS } QString;
#define QSTRING_VALID(s) (IS_BOOL((s).isnull) && (s).len >= 0 && (!(s).isnull || (s).len == 0))
/* Qt: operator== compares text; a null string equals an empty one */
#define QSTRING_EQ(a, b) (((a).len == 0 && (b).len == 0) || ((a).len == (b).len && (a).id == (b).id))
/* same observable value including null-ness (what a sink can distinguish) */
#define QSTRING_SAME(a, b) ((a).isnull == (b).isnull && QSTRING_EQ(a, b))
static inline QString QString_ctor(void) { QString s; s.isnull = 1; s.id = 0; s.len = 0; s.tag = 0; return s; }
static inline BOOL QString_isNull(QString s) { return s.isnull != 0; }
static inline BOOL QString_isEmpty(QString s) { return s.len == 0; }
static inline QString QString_literal(int id, int len) { QString s; s.isnull = 0; s.id = id; s.len = len; s.tag = 0; return s; }
static inline BOOL op_eq__QString_QString(QString a, QString b) { return QSTRING_EQ(a, b); }
static inline BOOL op_ne__QString_QString(QString a, QString b) { return !QSTRING_EQ(a, b); }

#ifndef QBYTEARRAY_EXTRA_FIELDS
#define QBYTEARRAY_EXTRA_FIELDS
#endif
typedef struct { int isnull; int id; int len; int owner; QBYTEARRAY_EXTRA_FIELDS } QByteArray;
static inline QByteArray QByteArray_ctor(void) { QByteArray s; s.isnull = 1; s.id = 0; s.len = 0; s.owner = 0; return s; }

#ifndef VERIF_OWN_QVARIANT
/* QVariant / QVariantHash: identity of the (immutable) value */
typedef struct { int id; } QVariant;
typedef struct { int id; } QVariantHash;
static inline QVariantHash QVariantHash_ctor(void) { QVariantHash h; h.id = 0; return h; }
/* map operations on identities: uninterpreted functions (equal arguments give equal results, nothing else known) */
int __CPROVER_uninterpreted_hash_merge(int base, int overlay);        /* QHash::insert(const QHash&) */
int __CPROVER_uninterpreted_hash_insert(int base, int key, int value); /* QHash::insert(key, value)   */
int __CPROVER_uninterpreted_hash_remove(int base, int key);
BOOL __CPROVER_uninterpreted_hash_contains(int base, int key);
int __CPROVER_uninterpreted_hash_value(int base, int key);
int __CPROVER_uninterpreted_hash_size(int base);
#define QSTRING_KEY(s) ((s).len == 0 ? 0 : (s).id)
#ifndef VERIF_OWN_QVARIANTHASH_INSERT
static inline void QVariantHash_insert__QVariantHash(QVariantHash *self, QVariantHash other)
{ self->id = __CPROVER_uninterpreted_hash_merge(self->id, other.id); }
#endif
#ifndef VERIF_OWN_QVARIANTHASH_INSERT_KV
static inline void QVariantHash_insert__QString_QVariant(QVariantHash *self, QString key, QVariant v)
{ self->id = __CPROVER_uninterpreted_hash_insert(self->id, QSTRING_KEY(key), v.id); }
#endif
static inline int QVariantHash_remove__QString(QVariantHash *self, QString key)
{ int had = __CPROVER_uninterpreted_hash_contains(self->id, QSTRING_KEY(key)) != 0; self->id = __CPROVER_uninterpreted_hash_remove(self->id, QSTRING_KEY(key)); return had; }
static inline BOOL QVariantHash_contains__QString(QVariantHash self, QString key)
{ return __CPROVER_uninterpreted_hash_contains(self.id, QSTRING_KEY(key)) != 0; }
static inline QVariant QVariantHash_value__QString(QVariantHash self, QString key)
{ QVariant v; v.id = __CPROVER_uninterpreted_hash_value(self.id, QSTRING_KEY(key)); return v; }
static inline BOOL QVariantHash_isEmpty(QVariantHash self) { return __CPROVER_uninterpreted_hash_size(self.id) == 0; }
#endif /* VERIF_OWN_QVARIANT */

#ifndef VERIF_OWN_QSTRINGLIST
/* abstract QList<QString> (also QStringList): length only, elements nondeterministic */
typedef struct { int n; } QList_QString;
typedef QList_QString QStringList;
typedef struct { int n; int i; } QList_QString_const_iterator;   /* n: length of the list it iterates */
typedef QList_QString_const_iterator QList_QString_iterator;
int nondet_int(void);
static inline QList_QString QVariantHash_keys(QVariantHash self)
{ QList_QString l; l.n = __CPROVER_uninterpreted_hash_size(self.id); __CPROVER_assume(l.n >= 0); return l; }
static inline QList_QString_const_iterator QList_QString_begin_const(QList_QString *l) { QList_QString_const_iterator it; it.n = l->n; it.i = 0; return it; }
static inline QList_QString_const_iterator QList_QString_end_const(QList_QString *l) { QList_QString_const_iterator it; it.n = l->n; it.i = l->n; return it; }
static inline BOOL QList_QString_const_iterator_op_ne__QList_QString_const_iterator(QList_QString_const_iterator a, QList_QString_const_iterator b) { return a.i != b.i; }
static inline QList_QString_const_iterator *QList_QString_const_iterator_op_inc(QList_QString_const_iterator *a) { a->i++; return a; }
static inline QString QList_QString_const_iterator_op_deref(QList_QString_const_iterator it)
{ __CPROVER_assert(0 <= it.i && it.i < it.n, "QList<QString>::const_iterator dereferenced inside [begin,end)");
  QString s; s.isnull = 0; s.id = nondet_int(); s.len = nondet_int(); s.tag = 0; __CPROVER_assume(s.len >= 0); return s; }

#endif /* VERIF_OWN_QSTRINGLIST */
typedef struct { long long msecs; int valid; long long jd; } QDateTime;   /* jd: the calendar day (local time) of msecs */
typedef struct { long long jd; } QDate;
typedef struct { long long ticks; } steady_time_point;

#endif
