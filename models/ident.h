/* 'ident' profile: Qt value types as content identities (DESIGN 2.3). TRUSTED. */
#ifndef VERIF_IDENT_H
#define VERIF_IDENT_H
#include "models/base.h"

/* QString: id = uninterpreted content identity (equal ids <=> equal text, for non-empty text);
 * isnull distinguishes the null string (which is also empty); len = number of UTF-16 units. */
typedef struct { int isnull; int id; int len; int tag; } QString;
#define QSTRING_VALID(s) (IS_BOOL((s).isnull) && (s).len >= 0 && (!(s).isnull || (s).len == 0))
/* Qt: operator== compares text; a null string equals an empty one */
#define QSTRING_EQ(a, b) (((a).len == 0 && (b).len == 0) || ((a).len == (b).len && (a).id == (b).id))
/* same observable value including null-ness (what a sink can distinguish) */
#define QSTRING_SAME(a, b) ((a).isnull == (b).isnull && QSTRING_EQ(a, b))
static inline QString QString_ctor(void) { QString s; s.isnull = 1; s.id = 0; s.len = 0; s.tag = 0; return s; }
static inline BOOL QString_isNull(QString s) { return s.isnull != 0; }
static inline BOOL QString_isEmpty(QString s) { return s.len == 0; }
static inline QString QString_literal(int id, int len) { QString s; s.isnull = 0; s.id = id; s.len = len; s.tag = 0; return s; }
static inline BOOL op_eq__QString_QString(QString a, QString b) { return QSTRING_EQ(a, b); }
static inline BOOL op_ne__QString_QString(QString a, QString b) { return !QSTRING_EQ(a, b); }

typedef struct { int isnull; int id; int len; int owner; } QByteArray;
static inline QByteArray QByteArray_ctor(void) { QByteArray s; s.isnull = 1; s.id = 0; s.len = 0; s.owner = 0; return s; }

/* QVariant / QVariantHash: identity of the (immutable) value */
typedef struct { int id; } QVariant;
typedef struct { int id; } QVariantHash;
static inline QVariantHash QVariantHash_ctor(void) { QVariantHash h; h.id = 0; return h; }

typedef struct { long long msecs; int valid; } QDateTime;
typedef struct { long long jd; } QDate;
typedef struct { long long ticks; } steady_time_point;

#endif
