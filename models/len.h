/* 'len' profile (C14, C12): Qt strings and byte arrays as LENGTHS with havocked content (DESIGN 2.3). TRUSTED.
 *
 * Every function below is an assumed contract of Qt 5.15 / libstdc++, written as a static inline model:
 *   - a REQUIREMENT of the Qt function (index in range, ...) is an __CPROVER_assert with the prefix "C14 ": Qt checks these only with
 *     Q_ASSERT in debug builds, in a release build the call reads or writes out of bounds;
 *   - the length arithmetic is Qt's documented clamping (QContainerImplHelper::mid, QByteArray::remove, chop, truncate, ...);
 *   - content is arbitrary: a character read returns any value, a search returns any position the lengths allow.  This
 *     over-approximates: a safety proof under arbitrary content holds for every real content.
 * For C12 a string additionally carries a little exact content: its first, second and last code unit (what parseFormatSpec reads),
 * the length of its trailing run of U+200B characters (what LiteralToken reads) and the position of ONE tracked witness character
 * g_wch (ghost; an arbitrary character of an arbitrary value: where it ends up says whether values are inserted verbatim).
 *
 * A-alloc: a length above LEN_MAX is not produced: Qt calls qBadAlloc() (std::bad_alloc) instead.  Memory exhaustion is outside
 * the model (stated in the evidence), integer overflow of the length arithmetic in the REPO code is not.
 */
#ifndef VERIF_LEN_H
#define VERIF_LEN_H
#include "models/base.h"

#define LEN_MAX 0x3fffffff
#define MARK 0x200B               /* DEL_MARKER */

int nondet_int(void);
unsigned short nondet_ushort(void);
char nondet_char(void);
unsigned long long nondet_ull(void);
long long nondet_ll(void);
double nondet_double(void);

/* ------------------------------------------------------------------ QChar */
typedef struct { unsigned short u; } QChar;
typedef struct { char ch; } QLatin1Char;
typedef struct { unsigned short u; } QCharRef;
static inline QLatin1Char QLatin1Char_ctor__char(char c) { QLatin1Char l; l.ch = c; return l; }
static inline QChar QChar_ctor__QLatin1Char(QLatin1Char l) { QChar c; c.u = (unsigned short)(unsigned char)(l.ch & 0xff); return c; }
static inline QChar QChar_ctor__char(char ch) { QChar c; c.u = (unsigned short)(unsigned char)(ch & 0xff); return c; }       /* QChar(char c) : ucs(uchar(c)) */
static inline QChar QChar_ctor__int(int rc) { QChar c; c.u = (unsigned short)(rc & 0xffff); return c; }                         /* QChar(int rc) : ucs(ushort(rc & 0xffff)) */
static inline QChar QChar_ctor__unsignedshort(unsigned short rc) { QChar c; c.u = rc; return c; }
static inline QChar QChar_ctor(void) { QChar c; c.u = 0; return c; }
static inline unsigned short *QChar_unicode(QChar *c) { return &c->u; }
static inline unsigned short QChar_unicode__const(QChar c) { return c.u; }
static inline QChar *QChar_op_assign__QChar(QChar *self, QChar o) { self->u = o.u; return self; }
static inline BOOL op_eq__QChar_QChar(QChar a, QChar b) { return a.u == b.u; }
static inline BOOL op_ne__QChar_QChar(QChar a, QChar b) { return a.u != b.u; }
static inline QChar QCharRef_op_conv_QChar(QCharRef r) { QChar c; c.u = r.u; return c; }
/* character classification: a function of the code point only */
BOOL __CPROVER_uninterpreted_is_letter_or_number(unsigned int ucs4);
static inline BOOL QChar_isLetterOrNumber(QChar c) { return __CPROVER_uninterpreted_is_letter_or_number(c.u) != 0; }
static inline BOOL QChar_isLetterOrNumber__unsignedint(unsigned int ucs4) { return ucs4 <= 0x10ffff && __CPROVER_uninterpreted_is_letter_or_number(ucs4) != 0; }
static inline BOOL QChar_isSpace(QChar c) { return nondet_int() != 0; }
static inline BOOL QChar_isDigit(QChar c) { return nondet_int() != 0; }

/* ------------------------------------------------------------------ length arithmetic shared by QString and QByteArray */
/* QContainerImplHelper::mid(originalLength, &position, &length): the length of mid(pos, n) */
static inline int qt_mid_len(int L, int pos, int n)
{
    if (pos > L) return 0;
    if (pos < 0) {
        if (n < 0 || n + pos >= L) return L;
        if (n + pos <= 0) return 0;
        return n + pos;
    }
    if (n < 0 || n > L - pos) return L - pos;      /* uint(length) > uint(originalLength - position) */
    return n;
}
/* the position mid() starts at, after the same clamping (only meaningful when the result is not empty) */
static inline int qt_mid_pos(int L, int pos, int n) { return pos < 0 ? 0 : pos; }
static inline int qt_chop_len(int L, int n) { return n > 0 ? (n >= L ? 0 : L - n) : L; }          /* chop(n): if (n > 0) resize(size - n); resize clamps at 0 */
static inline int qt_truncate_len(int L, int pos) { return pos < L ? (pos < 0 ? 0 : pos) : L; }     /* truncate(pos): if (pos < size) resize(pos) */
static inline int qt_remove_len(int L, int pos, int n)                                               /* remove(pos, n) */
{
    if (n <= 0 || pos < 0 || pos >= L) return L;      /* uint(pos) >= uint(size) */
    if (n >= L - pos) return pos;
    return L - n;
}
static inline int qt_left_len(int L, int n) { return (n < 0 || n >= L) ? L : n; }        /* left(n)/right(n): if (uint(n) >= uint(size)) return *this */
/* a search for a needle of length m >= 0 starting at 'from' (Qt: negative from counts from the end): -1 or a position where the needle fits */
static inline int qt_index_of(int L, int m, int from)
{
    int r = nondet_int();
    if (from < 0) { from = (from < -L) ? 0 : from + L; }
    __CPROVER_assume(r == -1 || (r >= from && r >= 0 && m <= L && r <= L - m));
    return r;
}
/* lastIndexOf(needle of length m, from): from == -1 means "from the end"; the match STARTS at or before from */
static inline int qt_last_index_of(int L, int m, int from)
{
    int r = nondet_int();
    int lim = from < 0 ? (from < -L ? -1 : from + L) : from;
    __CPROVER_assume(r == -1 || (r >= 0 && m <= L && r <= L - m && r <= lim));
    return r;
}

/* ------------------------------------------------------------------ QByteArray */
typedef struct { int len; } QByteArray;
#define QBYTEARRAY_VALID(b) ((b).len >= 0 && (b).len <= LEN_MAX)
static inline QByteArray QByteArray_ctor(void) { QByteArray b; b.len = 0; return b; }
static inline QByteArray QByteArray_ctor__cstr(cstr c) { QByteArray b; b.len = c.isnull ? 0 : c.len; return b; }
static inline QByteArray QByteArray_literal(int id, int len) { QByteArray b; b.len = len; return b; }
static inline int QByteArray_size(QByteArray b) { return b.len; }
static inline int QByteArray_length(QByteArray b) { return b.len; }
static inline BOOL QByteArray_isEmpty(QByteArray b) { return b.len == 0; }
static inline char QByteArray_at__int(QByteArray b, int i)
{ __CPROVER_assert(i >= 0 && i < b.len, "C14 index in range: QByteArray::at(i) needs 0 <= i < size()"); return nondet_char(); }
static inline char QByteArray_op_index__int(QByteArray b, int i)
{ __CPROVER_assert(i >= 0 && i < b.len, "C14 index in range: QByteArray::operator[](i) const needs 0 <= i < size()"); return nondet_char(); }
static inline void QByteArray_chop__int(QByteArray *b, int n) { b->len = qt_chop_len(b->len, n); }
static inline void QByteArray_truncate__int(QByteArray *b, int pos) { b->len = qt_truncate_len(b->len, pos); }
static inline void QByteArray_clear(QByteArray *b) { b->len = 0; }
static inline BOOL QByteArray_contains__char(QByteArray b, char c) { BOOL r = nondet_int() != 0; __CPROVER_assume(!r || b.len > 0); return r; }
static inline BOOL QByteArray_endsWith__char(QByteArray b, char c) { BOOL r = nondet_int() != 0; __CPROVER_assume(!r || b.len > 0); return r; }
static inline BOOL QByteArray_startsWith__char(QByteArray b, char c) { BOOL r = nondet_int() != 0; __CPROVER_assume(!r || b.len > 0); return r; }
static inline BOOL QByteArray_endsWith__cstr(QByteArray b, cstr c) { BOOL r = nondet_int() != 0; __CPROVER_assume(!r || b.len >= c.len); return r; }
static inline BOOL QByteArray_startsWith__cstr(QByteArray b, cstr c) { BOOL r = nondet_int() != 0; __CPROVER_assume(!r || b.len >= c.len); return r; }
static inline int QByteArray_indexOf__char(QByteArray b, char c) { return qt_index_of(b.len, 1, 0); }
static inline int QByteArray_indexOf__char_int(QByteArray b, char c, int from) { return qt_index_of(b.len, 1, from); }
static inline int QByteArray_indexOf__cstr(QByteArray b, cstr c) { return qt_index_of(b.len, c.len, 0); }
static inline int QByteArray_indexOf__cstr_int(QByteArray b, cstr c, int from) { return qt_index_of(b.len, c.len, from); }
static inline int QByteArray_lastIndexOf__char(QByteArray b, char c) { return qt_last_index_of(b.len, 1, -1); }
static inline int QByteArray_lastIndexOf__char_int(QByteArray b, char c, int from) { return qt_last_index_of(b.len, 1, from); }
static inline int QByteArray_lastIndexOf__cstr(QByteArray b, cstr c) { return qt_last_index_of(b.len, c.len, -1); }
static inline int QByteArray_lastIndexOf__cstr_int(QByteArray b, cstr c, int from) { return qt_last_index_of(b.len, c.len, from); }
static inline QByteArray QByteArray_mid__int(QByteArray b, int pos) { QByteArray r; r.len = qt_mid_len(b.len, pos, -1); return r; }
static inline QByteArray QByteArray_mid__int_int(QByteArray b, int pos, int n) { QByteArray r; r.len = qt_mid_len(b.len, pos, n); return r; }
static inline QByteArray QByteArray_left__int(QByteArray b, int n) { QByteArray r; r.len = qt_left_len(b.len, n); return r; }
static inline QByteArray QByteArray_right__int(QByteArray b, int n) { QByteArray r; r.len = qt_left_len(b.len, n); return r; }
static inline QByteArray *QByteArray_remove__int_int(QByteArray *b, int pos, int n) { b->len = qt_remove_len(b->len, pos, n); return b; }
/* replace(before, after): every occurrence; the length moves by k * (|after| - |before|) for some number k of disjoint occurrences */
static inline QByteArray *QByteArray_replace__cstr_cstr(QByteArray *b, cstr before, cstr after)
{
    int k = nondet_int();
    __CPROVER_assume(k >= 0 && (before.len > 0 ? k <= b->len / before.len : k <= b->len + 1));
    long long n = (long long)b->len + (long long)k * ((long long)after.len - (long long)before.len);
    __CPROVER_assume(n >= 0 && n <= LEN_MAX);        /* A-alloc */
    b->len = (int)n; return b;
}
static inline BOOL op_eq__QByteArray_cstr(QByteArray b, cstr c) { BOOL r = nondet_int() != 0; __CPROVER_assume(!r || b.len == (c.isnull ? 0 : c.len)); return r; }
static inline BOOL op_ne__QByteArray_cstr(QByteArray b, cstr c) { return !op_eq__QByteArray_cstr(b, c); }
static inline unsigned int qstrlen__cstr(cstr c) { return c.isnull ? 0u : (unsigned int)c.len; }
static inline int qstrcmp__cstr_cstr(cstr a, cstr b) { int r = nondet_int(); __CPROVER_assume(r >= -255 && r <= 255); return r; }

/* ------------------------------------------------------------------ QString */
extern unsigned short g_wch;          /* ghost: the tracked witness character */
extern int g_src_wpos;                /* ghost: the position of the witness inside whichever VALUE a token inserts (or -1: none) */
typedef struct {
    int len;
    int id;                 /* content identity: equal ids => equal text (used by toInt / == through uninterpreted functions) */
    unsigned short c0, c1, cl;  /* first, second, last code unit (meaningful when len >= 1 / >= 2 / >= 1) */
    int tail;               /* length of the trailing run of U+200B */
    int wpos;               /* position of the witness character, -1: not in this string */
#ifdef QS_GRAMMAR
    int src, off;           /* provenance (C12 grammar unit): src != 0: this text is the slice [off, off + len) of the text with identity src */
#endif
} QString;
typedef struct { int len; int id; } QLatin1String;
extern QString g_val; extern int g_val_kind, g_val_src;     /* ghost (C12): the last VALUE obtained from Qt and its source, see QS_VALUE_HOOK */
/* well-formedness of the little exact content a string carries */
#ifdef LEN_LIGHT
/* light variant (units that need lengths only): no exact content at all */
#define QS_CONTENT(x)
#ifdef QS_GRAMMAR
#define QSTRING_VALID(s) ((s).len >= 0 && (s).len <= LEN_MAX && (s).off >= 0 && (s).off <= LEN_MAX - (s).len && ((s).len != 0 || (s).id == 0))
#else
#define QSTRING_VALID(s) ((s).len >= 0 && (s).len <= LEN_MAX)
#endif
#else
#define QS_CONTENT(x) x
#define QSTRING_VALID(s) ((s).len >= 0 && (s).len <= LEN_MAX && (s).tail >= 0 && (s).tail <= (s).len && (s).wpos >= -1 && (s).wpos < (s).len \
    && ((s).len < 1 || ((s).tail > 0) == ((s).cl == MARK)) && ((s).len != 1 || (s).c0 == (s).cl) && ((s).len != 2 || (s).c1 == (s).cl) \
    && ((s).wpos != 0 || (s).c0 == g_wch) && ((s).wpos != 1 || (s).c1 == g_wch) && ((s).wpos < 0 || (s).wpos != (s).len - 1 || (s).cl == g_wch) \
    && ((s).wpos < 0 || (s).wpos < (s).len - (s).tail || g_wch == MARK) && ((s).wpos < 0 || (s).wpos != (s).len - (s).tail - 1 || g_wch != MARK) \
    && ((s).len < 1 || (s).tail != (s).len || (s).c0 == MARK) && ((s).len < 2 || (s).tail < (s).len - 1 || (s).c1 == MARK) \
    && ((s).len < 2 || (s).tail != (s).len - 1 || (s).c0 != MARK) && ((s).len < 3 || (s).tail != (s).len - 2 || (s).c1 != MARK))
#endif
QString nondet_QString(void);
/* any well-formed string of the given length that does not contain the witness */
static inline QString qs_any(int len)
{ QString s = nondet_QString(); __CPROVER_assume(s.len == len && QSTRING_VALID(s)); QS_CONTENT(__CPROVER_assume(s.wpos == -1);) return s; }
/* ... of any length in [lo, hi] */
static inline QString qs_any_between(int lo, int hi)
{ QString s = nondet_QString(); __CPROVER_assume(s.len >= lo && s.len <= hi && QSTRING_VALID(s)); QS_CONTENT(__CPROVER_assume(s.wpos == -1);) return s; }
/* per-proof hook (C12): remembers the VALUE a token obtained and where it came from */
#ifndef QS_VALUE_HOOK
#define QS_VALUE_HOOK(s, kind, srcid)
#endif
enum { SRC_OTHER = 0, SRC_CSTR = 1, SRC_VARIANT = 2, SRC_NUMBER = 3 };
/* a VALUE (message text, category, file, attribute text, number text): carries the witness at g_src_wpos when that is inside it */
static inline QString qs_value(int lo, int hi)
{ QString s = nondet_QString(); __CPROVER_assume(s.len >= lo && s.len <= hi && QSTRING_VALID(s)); QS_CONTENT(__CPROVER_assume(s.wpos == (g_src_wpos >= 0 && g_src_wpos < s.len ? g_src_wpos : -1));) return s; }
#ifdef LEN_LIGHT
#define QSTRING_IS_VALUE(s) QSTRING_VALID(s)
#else
#define QSTRING_IS_VALUE(s) (QSTRING_VALID(s) && (s).wpos == (g_src_wpos >= 0 && g_src_wpos < (s).len ? g_src_wpos : -1))
#endif

#ifdef QS_GRAMMAR
/* C12 grammar unit: texts as SLICES of a root text.  A slice is normalised to (root identity, absolute offset, length) whatever chain of
 * mid/left/right/chop produced it; its content identity is mid_id(root, off, len) (0 for the empty text); what the code can learn about
 * the root's content are values of uninterpreted functions of (root, absolute position): a code unit, the first / last occurrence of a
 * character, the longest documented keyword the text starts with.  The contracts name the same functions. */
#define QS_G(x) x
#define QS_NOT_G(x)      /* the slice identity is set by QS_SLICE_FIX (normalised); the un-normalised one is not generated */
int __CPROVER_uninterpreted_mid_id(int id, int pos, int n);
unsigned short __CPROVER_uninterpreted_unit(int root, int abs);
int __CPROVER_uninterpreted_first(int root, unsigned short ch, int absfrom);             /* first position >= absfrom of ch in root, or -1 */
int __CPROVER_uninterpreted_last(int root, unsigned short ch, int abslo, int abshi);     /* last position of ch in [abslo, abshi) of root, or -1 */
int __CPROVER_uninterpreted_kw(int root, int abs);                                       /* the longest documented keyword root[abs..] starts with (its literal identity), or 0 */
BOOL __CPROVER_uninterpreted_starts_other(int root, int abs, int lit);                   /* for a literal that is not a documented keyword */
int __CPROVER_uninterpreted_trim(int id);
int __CPROVER_uninterpreted_cat(int id, unsigned short ch);
#define QS_ROOT(s) ((s).src != 0 ? (s).src : (s).id)
#define QS_OFF(s) ((s).src != 0 ? (s).off : 0)
#define QS_SLICE_FIX(r, s, p) { (r).src = QS_ROOT(s); (r).off = QS_OFF(s) + (p); (r).id = __CPROVER_uninterpreted_mid_id((r).src, (r).off, (r).len); \
                                if ((r).len == 0) { (r).src = 0; (r).off = 0; (r).id = 0; } }
#else
#define QS_G(x)
#define QS_NOT_G(x) x
#define QS_SLICE_FIX(r, s, p)
#endif
static inline QString QString_ctor(void) { QString s; s.len = 0; s.id = 0; s.c0 = 0; s.c1 = 0; s.cl = 0; s.tail = 0; s.wpos = -1; QS_G(s.src = 0; s.off = 0;) return s; }
/* a string literal of the source: its text is fixed (identity = the literal), it contains neither U+200B nor the witness */
static inline QString QString_literal(int id, int len)
{ QString s = nondet_QString(); __CPROVER_assume(s.len == len && s.id == id && QSTRING_VALID(s)); QS_CONTENT(__CPROVER_assume(s.wpos == -1 && s.tail == 0);) return s; }
static inline QLatin1String QLatin1String_ctor__cstr(cstr c) { QLatin1String l; l.len = c.isnull ? 0 : c.len; l.id = c.id; return l; }
static inline int QString_size(QString s) { return s.len; }
static inline int QString_length(QString s) { return s.len; }
static inline BOOL QString_isEmpty(QString s) { return s.len == 0; }
static inline void QString_clear(QString *s) { *s = QString_ctor(); }
/* reserve(n) is a capacity HINT: the text does not need the memory, yet a hint above Qt's size limit throws std::bad_alloc (qBadAlloc),
 * which nothing in the library catches: the process aborts.  (Contrast A-alloc: text that is really produced needs its memory.) */
static inline void QString_reserve__int(QString *s, int n)
{ __CPROVER_assert(n <= LEN_MAX, "C14 no crash: QString::reserve(n) with a hint above the QString size limit throws std::bad_alloc"); }
static inline void QString_squeeze(QString *s) { }
/* the code unit at position i of a well-formed string, as far as the model knows it */
static inline unsigned short qs_unit(QString s, int i)
{
    unsigned short u = nondet_ushort();
    QS_G(u = __CPROVER_uninterpreted_unit(QS_ROOT(s), QS_OFF(s) + i);)
#ifndef LEN_LIGHT
    if (i == 0) u = s.c0; else if (i == 1) u = s.c1; else if (i == s.len - 1) u = s.cl; else if (i == s.wpos) u = g_wch;
    else if (i >= s.len - s.tail) u = MARK;
    else if (i == s.len - s.tail - 1) __CPROVER_assume(u != MARK);
#endif
    return u;
}
static inline QChar QString_at__int(QString s, int i)
{ __CPROVER_assert(i >= 0 && i < s.len, "C14 index in range: QString::at(i) needs 0 <= i < size()"); QChar c; c.u = qs_unit(s, i); return c; }
/* non-const operator[]: Q_ASSERT(i >= 0); a position at or beyond size() reads as 0 through QCharRef (Qt 5) */
static inline QCharRef QString_op_index__int(QString *s, int i)
{ __CPROVER_assert(i >= 0, "C14 index in range: QString::operator[](i) needs i >= 0"); QCharRef r; r.u = i < s->len ? qs_unit(*s, i) : 0; return r; }
static inline QChar QString_op_index__int__const(QString s, int i)
{ __CPROVER_assert(i >= 0 && i < s.len, "C14 index in range: QString::operator[](i) const needs 0 <= i < size()"); QChar c; c.u = qs_unit(s, i); return c; }

/* identity of the slice [pos, pos + n) of the text with identity id */
int __CPROVER_uninterpreted_mid_id(int id, int pos, int n);
/* s with its last n (1 <= n <= len) code units removed */
static inline QString qs_drop_last(QString s, int n)
{
    QString r = nondet_QString();
    int L = s.len - n;
    __CPROVER_assume(r.len == L && QSTRING_VALID(r) QS_NOT_G(&& r.id == __CPROVER_uninterpreted_mid_id(s.id, 0, L)));
    QS_CONTENT(__CPROVER_assume(r.wpos == (s.wpos < L ? s.wpos : -1));
    __CPROVER_assume(L < 1 || r.c0 == s.c0); __CPROVER_assume(L < 2 || r.c1 == s.c1);
    __CPROVER_assume(n > s.tail || r.tail == s.tail - n);)        /* still inside the trailing run: the rest of the run remains */
    QS_SLICE_FIX(r, s, 0)
    return r;
}
/* s with its first n (1 <= n <= len) code units removed */
static inline QString qs_drop_first(QString s, int n)
{
    QString r = nondet_QString();
    int L = s.len - n;
    __CPROVER_assume(r.len == L && QSTRING_VALID(r) QS_NOT_G(&& r.id == __CPROVER_uninterpreted_mid_id(s.id, n, L)));
    QS_CONTENT(__CPROVER_assume(r.wpos == (s.wpos >= n ? s.wpos - n : -1));
    __CPROVER_assume(L < 1 || r.cl == s.cl);
    __CPROVER_assume(n != 1 || L < 1 || r.c0 == s.c1);
    __CPROVER_assume(r.tail == (s.tail <= L ? s.tail : L));)
    QS_SLICE_FIX(r, s, n)
    return r;
}
/* per-proof obligation hooks (C12): what may be REMOVED from a buffer */
#ifndef OBL_C12_CHOP
#define OBL_C12_CHOP(s, n)
#endif
#ifndef OBL_C12_REMOVE
#define OBL_C12_REMOVE(s, c)
#endif
static inline void QString_chop__int(QString *s, int n) { int L = qt_chop_len(s->len, n); if (L != s->len) { OBL_C12_CHOP(*s, s->len - L) *s = qs_drop_last(*s, s->len - L); } }
static inline void QString_truncate__int(QString *s, int pos) { int L = qt_truncate_len(s->len, pos); if (L != s->len) *s = qs_drop_last(*s, s->len - L); }
static inline void QString_resize__int(QString *s, int n)
{ if (n < 0) n = 0; if (n < s->len) *s = qs_drop_last(*s, s->len - n); else if (n > s->len) { __CPROVER_assume(n <= LEN_MAX); int w = s->wpos; *s = qs_any(n); (void)w; } }
static inline QString QString_left__int(QString s, int n) { int L = qt_left_len(s.len, n); return L == s.len ? s : qs_drop_last(s, s.len - L); }
static inline QString QString_right__int(QString s, int n) { int L = qt_left_len(s.len, n); return L == s.len ? s : qs_drop_first(s, s.len - L); }
static inline QString QString_chopped__int(QString s, int n) { __CPROVER_assert(n >= 0 && n <= s.len, "C14 index in range: QString::chopped(n) needs 0 <= n <= size()"); return n == 0 ? s : qs_drop_last(s, n); }
/* mid(pos, n): the slice [p, p + L) */
static inline QString QString_mid__int_int(QString s, int pos, int n)
{
    int L = qt_mid_len(s.len, pos, n);
    if (L == s.len) return s;
    if (L == 0) { QString e = QString_ctor(); return e; }
    int p = qt_mid_pos(s.len, pos, n);
    QString r = s;
    if (p > 0) r = qs_drop_first(r, p);
    if (r.len > L) r = qs_drop_last(r, r.len - L);
    QS_NOT_G(r.id = __CPROVER_uninterpreted_mid_id(s.id, p, L);)
    QS_SLICE_FIX(r, s, p)
    return r;
}
static inline QString QString_mid__int(QString s, int pos) { return QString_mid__int_int(s, pos, -1); }

/* a ++ b */
static inline QString qs_concat(QString a, QString b)
{
    if (b.len == 0) return a;
    if (a.len == 0) return b;
    long long n = (long long)a.len + (long long)b.len;
    __CPROVER_assume(n <= LEN_MAX);                     /* A-alloc */
    QString r = nondet_QString();
    __CPROVER_assume(r.len == (int)n && QSTRING_VALID(r));
    QS_CONTENT(__CPROVER_assume(r.c0 == a.c0 && r.cl == b.cl && r.c1 == (a.len >= 2 ? a.c1 : b.c0));
    __CPROVER_assume(r.tail == (b.tail == b.len ? a.tail + b.len : b.tail));
    __CPROVER_assume(r.wpos == (a.wpos >= 0 ? a.wpos : (b.wpos >= 0 ? a.len + b.wpos : -1)));)
    return r;
}
static inline QString qs_char(QChar c) { QString s; s.len = 1; s.id = 0; s.c0 = c.u; s.c1 = 0; s.cl = c.u; s.tail = c.u == MARK ? 1 : 0; s.wpos = -1; QS_G(s.src = 0; s.off = 0;) return s; }
static inline QString *QString_append__QString(QString *s, QString o) { *s = qs_concat(*s, o); return s; }
#ifdef QS_GRAMMAR
/* text ++ one code unit: the identity of the result is a function of the identity of the text and of that unit */
static inline QString *QString_append__QChar(QString *s, QChar c)
{ int old = s->len == 0 ? 0 : s->id; *s = qs_concat(*s, qs_char(c)); s->id = __CPROVER_uninterpreted_cat(old, c.u); s->src = 0; s->off = 0; return s; }
#else
static inline QString *QString_append__QChar(QString *s, QChar c) { *s = qs_concat(*s, qs_char(c)); return s; }
#endif
static inline QString *QString_op_addassign__QString(QString *s, QString o) { *s = qs_concat(*s, o); return s; }
static inline QString *QString_op_addassign__QChar(QString *s, QChar c) { *s = qs_concat(*s, qs_char(c)); return s; }
static inline QString *QString_op_addassign__QLatin1Char(QString *s, QLatin1Char c) { *s = qs_concat(*s, qs_char(QChar_ctor__QLatin1Char(c))); return s; }
static inline QString *QString_op_addassign__QLatin1String(QString *s, QLatin1String l) { *s = qs_concat(*s, QString_literal(l.id, l.len)); return s; }
static inline QString *QString_append__QLatin1String(QString *s, QLatin1String l) { *s = qs_concat(*s, QString_literal(l.id, l.len)); return s; }
static inline QString op_plus__QString_QString(QString a, QString b) { return qs_concat(a, b); }
/* QString(n, ch): n <= 0 gives the empty string */
static inline QString QString_ctor__int_QChar(int n, QChar ch)
{
    if (n <= 0) return QString_ctor();
    __CPROVER_assume(n <= LEN_MAX);                     /* A-alloc */
    QString s; s.len = n; s.id = 0; s.c0 = ch.u; s.c1 = ch.u; s.cl = ch.u; s.tail = ch.u == MARK ? n : 0; s.wpos = -1; QS_G(s.src = 0; s.off = 0;) return s;
}
/* text that comes from OUTSIDE the formatter (a VALUE): any content, may carry the witness */
static inline QString QString_ctor__cstr(cstr c) { QString s = qs_value(0, c.isnull ? 0 : c.len); QS_VALUE_HOOK(s, SRC_CSTR, c.id) return s; }                  /* fromUtf8: at most one unit per byte */
static inline QString QString_fromUtf8__cstr(cstr c) { QString s = qs_value(0, c.isnull ? 0 : c.len); QS_VALUE_HOOK(s, SRC_CSTR, c.id) return s; }
static inline QString QString_fromLatin1__cstr(cstr c) { int n = c.isnull ? 0 : c.len; return qs_value(n, n); }
static inline QString QString_fromLatin1__QByteArray(QByteArray b) { return qs_value(b.len, b.len); }
static inline QString QString_fromUtf8__QByteArray(QByteArray b) { return qs_value(0, b.len); }
static inline QString QString_number__int(int n) { QString s = qs_value(1, 11); QS_VALUE_HOOK(s, SRC_NUMBER, n) return s; }
static inline QString QString_number__unsignedlonglong_int(unsigned long long n, int base) { return qs_value(1, 64); }
static inline QString QString_number__double_char_int(double d, char f, int prec) { return qs_value(1, 400); }
static inline QString QString_trimmed(QString *s) { QString r = nondet_QString(); __CPROVER_assume(r.len >= 0 && r.len <= s->len && QSTRING_VALID(r)); QS_CONTENT(__CPROVER_assume(r.wpos == -1);)
  QS_G(r.src = 0; r.off = 0; r.id = __CPROVER_uninterpreted_trim(s->id); if (r.len == 0) r.id = 0;) return r; }

/* searches */
#ifdef LEN_LIGHT
static inline BOOL QString_endsWith__QChar(QString s, QChar c) { return s.len > 0 && nondet_int() != 0; }
static inline BOOL QString_startsWith__QChar(QString s, QChar c) { return s.len > 0 && nondet_int() != 0; }
#else
static inline BOOL QString_endsWith__QChar(QString s, QChar c) { return s.len > 0 && s.cl == c.u; }
static inline BOOL QString_startsWith__QChar(QString s, QChar c) { return s.len > 0 && s.c0 == c.u; }
#endif
static inline BOOL QString_startsWith__QString(QString s, QString p) { BOOL r = nondet_int() != 0; __CPROVER_assume(!r || s.len >= p.len); if (p.len == 0) r = 1; return r; }
#ifdef QS_GRAMMAR
/* does root[abs..] start with the literal?  QS_KW_PREFIX (given by the unit) is the static prefix table of the documented keywords */
#define QS_KWSTARTS(root, abs, lit) (QS_KW_KNOWN(lit) ? QS_KW_PREFIX(__CPROVER_uninterpreted_kw(root, abs), lit) : (__CPROVER_uninterpreted_starts_other(root, abs, lit) != 0))
static inline BOOL QString_startsWith__QLatin1String(QString s, QLatin1String p) { if (p.len == 0) return 1; if (s.len < p.len) return 0; return QS_KWSTARTS(QS_ROOT(s), QS_OFF(s), p.id); }
#else
static inline BOOL QString_startsWith__QLatin1String(QString s, QLatin1String p) { BOOL r = nondet_int() != 0; __CPROVER_assume(!r || s.len >= p.len); if (p.len == 0) r = 1; return r; }
#endif
static inline BOOL QString_endsWith__QString(QString s, QString p) { BOOL r = nondet_int() != 0; __CPROVER_assume(!r || s.len >= p.len); if (p.len == 0) r = 1; return r; }
BOOL __CPROVER_uninterpreted_str_eq_lit(int sid, int lit);
#ifdef QS_GRAMMAR
static inline BOOL QString_op_eq__QLatin1String(QString s, QLatin1String l) { if (s.len != l.len) return 0; if (s.len == 0) return 1; return QS_KWSTARTS(QS_ROOT(s), QS_OFF(s), l.id); }
#else
static inline BOOL QString_op_eq__QLatin1String(QString s, QLatin1String l) { if (s.len != l.len) return 0; if (s.len == 0) return 1; return __CPROVER_uninterpreted_str_eq_lit(s.id, l.id) != 0; }
#endif
static inline BOOL op_eq__QString_QString(QString a, QString b) { if (a.len != b.len) return 0; if (a.len == 0) return 1; BOOL r = nondet_int() != 0; if (a.id == b.id && a.id != 0) r = 1; return r; }
/* contains / indexOf of a character: exact where the model knows the content (the strings parseFormatSpec looks at), arbitrary elsewhere */
#ifndef QS_LITERAL_CONTAINS
#define QS_LITERAL_CONTAINS(s, c, r) /* per-unit hook: exact membership for known literals */
#endif
static inline BOOL QString_contains__QChar(QString s, QChar c)
{
    BOOL r = nondet_int() != 0;
    __CPROVER_assume(!r || s.len > 0);
#ifndef LEN_LIGHT
    if (s.len >= 1 && (s.c0 == c.u || s.cl == c.u)) r = 1;
    if (s.len >= 2 && s.c1 == c.u) r = 1;
    if (s.len == 1 && s.c0 != c.u) r = 0;
    if (s.len == 2 && s.c0 != c.u && s.c1 != c.u) r = 0;
#endif
    QS_LITERAL_CONTAINS(s, c, r)
    return r;
}
#ifdef QS_GRAMMAR
/* first occurrence of c at or after from: a function of (root, c, absolute start); an occurrence beyond the end of the slice does not count */
static inline int QString_indexOf__QChar_int(QString s, QChar c, int from)
{
    if (from < 0) { from = (from < -s.len) ? 0 : from + s.len; }
    if (from >= s.len) return -1;
    int a = __CPROVER_uninterpreted_first(QS_ROOT(s), c.u, QS_OFF(s) + from);
    __CPROVER_assume(a == -1 || a >= QS_OFF(s) + from);
    if (a == -1 || a >= QS_OFF(s) + s.len) return -1;
    return a - QS_OFF(s);
}
static inline int QString_indexOf__QChar(QString s, QChar c) { return QString_indexOf__QChar_int(s, c, 0); }
/* last occurrence of c that starts at or before from (-1: anywhere): a function of (root, c, absolute range) */
static inline int QString_lastIndexOf__QChar_int(QString s, QChar c, int from)
{
    int lim = from < 0 ? (from < -s.len ? -1 : from + s.len) : from;
    if (lim >= s.len) lim = s.len - 1;
    if (lim < 0) return -1;
    int a = __CPROVER_uninterpreted_last(QS_ROOT(s), c.u, QS_OFF(s), QS_OFF(s) + lim + 1);
    __CPROVER_assume(a == -1 || (a >= QS_OFF(s) && a <= QS_OFF(s) + lim));
    return a == -1 ? -1 : a - QS_OFF(s);
}
static inline int QString_lastIndexOf__QChar(QString s, QChar c) { return QString_lastIndexOf__QChar_int(s, c, -1); }
#else
static inline int QString_indexOf__QChar(QString s, QChar c) { return qt_index_of(s.len, 1, 0); }
static inline int QString_indexOf__QChar_int(QString s, QChar c, int from) { return qt_index_of(s.len, 1, from); }
static inline int QString_lastIndexOf__QChar(QString s, QChar c) { return qt_last_index_of(s.len, 1, -1); }
static inline int QString_lastIndexOf__QChar_int(QString s, QChar c, int from) { return qt_last_index_of(s.len, 1, from); }
#endif
static inline int QString_indexOf__QString(QString s, QString p) { return qt_index_of(s.len, p.len, 0); }
/* remove(ch): every occurrence of ch; what is left of the witness: it stays unless it IS that character */
static inline QString *QString_remove__QChar(QString *s, QChar c)
{
    QString r = nondet_QString();
    OBL_C12_REMOVE(*s, c)
    __CPROVER_assume(r.len >= 0 && r.len <= s->len && QSTRING_VALID(r));
#ifndef LEN_LIGHT
    if (c.u == MARK) { __CPROVER_assume(r.len <= s->len - s->tail && r.tail == 0); }
    if (s->wpos >= 0 && g_wch != c.u) { __CPROVER_assume(r.wpos >= 0 && r.wpos <= s->wpos); }
    else { __CPROVER_assume(r.wpos == -1); }
#endif
    *s = r; return s;
}
/* conversions to numbers: a function of the text */
int __CPROVER_uninterpreted_to_int(int id);
BOOL __CPROVER_uninterpreted_to_int_ok(int id);
static inline int QString_toInt__BOOLP(QString s, BOOL *ok)
{ BOOL k = s.len > 0 && __CPROVER_uninterpreted_to_int_ok(s.id) != 0; if (ok) *ok = k; return k ? __CPROVER_uninterpreted_to_int(s.id) : 0; }
static inline int QString_toInt(QString s) { return QString_toInt__BOOLP(s, (BOOL *)0); }

/* ------------------------------------------------------------------ QVariant / QVariantHash / times (values) */
typedef struct { int id; } QVariant;
typedef struct { int id; } QVariantHash;
BOOL __CPROVER_uninterpreted_hash_contains(int base, int key);
int __CPROVER_uninterpreted_hash_value(int base, int key);
static inline BOOL QVariantHash_contains__QString(QVariantHash self, QString key) { return __CPROVER_uninterpreted_hash_contains(self.id, key.id) != 0; }
static inline QVariant QVariantHash_value__QString(QVariantHash self, QString key) { QVariant v; v.id = __CPROVER_uninterpreted_hash_value(self.id, key.id); return v; }
/* QVariant::toString(): any text, possibly empty (an attribute may be present with an empty value) */
static inline QString QVariant_toString(QVariant v) { QString s = qs_value(0, LEN_MAX); QS_VALUE_HOOK(s, SRC_VARIANT, v.id) return s; }
typedef struct { long long msecs; } QDateTime;
typedef struct { long long ticks; } steady_time_point;
typedef struct { long long n; } chrono_duration;
typedef enum { E_Qt_DateFormat_TextDate = 0, E_Qt_DateFormat_ISODate = 1, E_Qt_DateFormat_ISODateWithMs = 9 } Qt_DateFormat;
static inline QString QDateTime_toString__Qt_DateFormat(QDateTime d, Qt_DateFormat f) { return qs_value(0, 64); }
/* toString(format): the text grows at most linearly with the format (every specifier expands to a bounded text) */
static inline QString QDateTime_toString__QString(QDateTime d, QString format) { return qs_value(0, LEN_MAX); }
static inline chrono_duration op_minus__steady_time_point_steady_time_point(steady_time_point a, steady_time_point b) { chrono_duration d; d.n = nondet_ll(); return d; }
static inline chrono_duration steady_time_point_time_since_epoch(steady_time_point a) { chrono_duration d; d.n = a.ticks; return d; }
static inline chrono_duration std_chrono_duration_cast__chrono_duration(chrono_duration d) { chrono_duration r; r.n = nondet_ll(); return r; }
static inline long long chrono_duration_count(chrono_duration d) { return d.n; }

/* ------------------------------------------------------------------ QHash<int,int> (PrettyFormatter's thread index table) */
typedef struct { int n; } QHash_int_int;
typedef struct { int found; int value; } QHash_int_int_iterator;
static inline QHash_int_int_iterator QHash_int_int_find__int(QHash_int_int *h, int key)
{ QHash_int_int_iterator it; it.found = (h->n > 0) && (nondet_int() != 0); it.value = nondet_int(); return it; }
static inline QHash_int_int_iterator QHash_int_int_end(QHash_int_int *h) { QHash_int_int_iterator it; it.found = 0; it.value = 0; return it; }
static inline BOOL QHash_int_int_iterator_op_eq__QHash_int_int_iterator(QHash_int_int_iterator a, QHash_int_int_iterator b) { return a.found == b.found; }
static inline BOOL QHash_int_int_iterator_op_ne__QHash_int_int_iterator(QHash_int_int_iterator a, QHash_int_int_iterator b) { return a.found != b.found; }
void *malloc(__CPROVER_size_t);
static inline int *QHash_int_int_iterator_value(QHash_int_int_iterator it)
{ __CPROVER_assert(it.found, "C14 iterator: QHash::iterator::value() needs an iterator that is not end()");
  int *cell = (int *)malloc(sizeof(int)); __CPROVER_assume(cell != 0); *cell = it.value; return cell; }        /* a reference to the mapped value */
static inline int QHash_int_int_size(QHash_int_int h) { return h.n; }
static inline QHash_int_int_iterator QHash_int_int_insert__int_int(QHash_int_int *h, int key, int value)
{ int grow = nondet_int() != 0; if (grow) { __CPROVER_assume(h->n < 0x7fffffff); h->n = h->n + 1; } QHash_int_int_iterator it; it.found = 1; it.value = value; return it; }
#endif
