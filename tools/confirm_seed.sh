#!/bin/bash
# tools/confirm_seed.sh <PROP> <mN> : confirm a seeded change delivered by a sub-agent in /tmp/seed/<PROP>/out/<mN>
# (applies in the agent's scratch worktree: builds, runs the unedited test suite, runs the demo with and without
# the change) and, if everything holds, stores it under /verif/seeded/<PROP>-<mN>/.
set -u
P=$1; M=$2; W=${3:-/tmp/seed/$P}; O=${4:-$W/out/$M}
cd $W || exit 3
git checkout -q -- . ; git apply --check $O/patch.diff || { echo "patch does not apply"; exit 3; }
git apply $O/patch.diff
cmake --build _build -- -k 0 >/tmp/seed/$P.$M.build.log 2>&1
nfail=$(grep -c "^FAILED:" /tmp/seed/$P.$M.build.log)
onlysentry=$(grep "^FAILED:" /tmp/seed/$P.$M.build.log | grep -vc sentry_example)
ctest --test-dir _build -j8 --timeout 900 > /tmp/seed/$P.$M.ctest.log 2>&1
tests=$(grep -E "tests passed|tests failed" /tmp/seed/$P.$M.ctest.log | tail -1)
bash $O/run_demo.sh > /tmp/seed/$P.$M.demo_with.log 2>&1; with=$?
git checkout -q -- .
cmake --build _build -- -k 0 >/dev/null 2>&1
bash $O/run_demo.sh > /tmp/seed/$P.$M.demo_without.log 2>&1; without=$?
echo "build: $nfail failed targets ($onlysentry other than sentry_example) | tests: $tests | demo with change: exit $with | demo without: exit $without"
if [ "$onlysentry" = "0" ] && echo "$tests" | grep -q "100% tests passed" && [ $with -ne 0 ] && [ $without -eq 0 ]; then
  D=/verif/seeded/$P-$M; mkdir -p $D
  cp $O/patch.diff $O/demo.cpp $O/run_demo.sh $D/ 2>/dev/null
  cp $O/*.sh $O/*.cpp $D/ 2>/dev/null
  python3 - "$O/meta.json" "$D/meta.json" "$tests" "$with" "$without" "$(tail -5 /tmp/seed/$P.$M.demo_with.log)" <<'PY'
import json,sys
src,dst,tests,w,wo,tail=sys.argv[1:7]
try: m=json.load(open(src))
except Exception: m={}
out={'property':m.get('property'), 'summary':m.get('summary'), 'needs_to_manifest':m.get('needs_to_manifest'),
     'author':'independent sub-agent (saw only the property text and a scratch worktree)',
     'agent_reported':m.get('how_verified'),
     'confirmed_by_me':{'what_i_ran':'tools/confirm_seed.sh: git apply in a scratch worktree of /repo HEAD; cmake --build (all targets except the pre-existing sentry_example link failure); ctest -j8 (unedited suite); run_demo.sh with the change; git checkout; rebuild; run_demo.sh without',
                        'test_suite_with_change':tests,'demo_exit_with_change':int(w),'demo_exit_without_change':int(wo),'demo_output_with_change_tail':tail}}
json.dump(out,open(dst,'w'),indent=1)
PY
  echo "CONFIRMED -> $D"
else
  echo "NOT CONFIRMED"
fi
