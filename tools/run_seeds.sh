#!/bin/bash
# tools/run_seeds.sh <id>... : run the property's check against each seeded change (scratch copy), log to /tmp/seedrun_<id>.log
for id in "$@"; do
  P=${id%%-*}
  /verif/tools/try_patch.sh /verif/seeded/$id/patch.diff $P > /tmp/seedrun_$id.log 2>&1
  grep -E "VIOLATION|UNDECIDED|BOUNDED|KNOWN|tier=|exit=" /tmp/seedrun_$id.log | cut -c1-600 > /verif/seeded/$id/last_check.txt
done
