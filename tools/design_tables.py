#!/usr/bin/env python3
"""tools/design_tables.py : regenerate the two generated tables of DESIGN.md section 10
   - status per property from evidence/<id>.json (written by the checks themselves)
   - seeded changes vs. detecting obligation from the logs of tools/run_seeds.sh (/tmp/seedrun_<id>.log) + seeded/<id>/meta.json
"""
import glob, json, os, re, sys
V = os.path.dirname(os.path.dirname(os.path.abspath(__file__)))

def status_table():
    rows = ['| id | tier | proofs | obligations | discharged | known findings printed | bounded stand-ins | undecided | violations | solver s | wall s |', '|---|---|---|---|---|---|---|---|---|---|---|']
    for p in sorted(glob.glob(os.path.join(V, 'evidence', 'C*.json'))):
        e = json.load(open(p)); c = e['coverage']
        rows.append('| %s | %s | %d | %d | %d | %s | %d | %d | %s | %s | %s |' % (e['property_id'], e['tier'], len([x for x in c.get('proofs', []) if '[with -D' not in x.get('proof', '')]),
                    c['obligations'], c['discharged'], ', '.join(c.get('known_findings_printed', [])) or '-', len(c.get('bounded_stand_ins', [])), len(c.get('undecided', [])),
                    e.get('violations', 0), c.get('solver_seconds_total', ''), e.get('wall_s', '')))
    return '\n'.join(rows)

def seeds_table(logdir='/tmp'):
    rows = ['| seed | what the change does (author\'s summary, shortened) | result of `./check <id>` on the changed tree | reported through |', '|---|---|---|---|']
    for d in sorted(glob.glob(os.path.join(V, 'seeded', '*'))):
        sid = os.path.basename(d)
        try: meta = json.load(open(os.path.join(d, 'meta.json')))
        except Exception: meta = {}
        summ = re.sub(r'\s+', ' ', meta.get('summary', ''))[:170].replace('|', '/')
        log = os.path.join(d, 'last_check.txt')          # kept by tools/run_seeds.sh (summary lines of the last run)
        if not os.path.exists(log): log = os.path.join(logdir, 'seedrun_%s.log' % sid)
        res, via = 'not run', ''
        if os.path.exists(log):
            t = open(log).read()
            v = re.findall(r'VIOLATION property=\S+ replay=(\S+)( obligation=\S+)?( no-failing-input-found)?', t)
            ex = re.search(r'exit=(\d+)', t)
            if 'PATCH FAILED' in t: res = 'PATCH FAILED'
            elif v:
                res = 'VIOLATION (exit 1)'
                parts = []
                for path, ob, nf in v[:3]:
                    name = os.path.basename(path).replace('.json', '')
                    parts.append('`%s`%s%s' % (name, (' ' + ob.strip()) if ob else '', ' (no-failing-input-found)' if nf else ' (failing input replayed natively)'))
                via = '; '.join(parts)
            elif ex: res = 'exit %s (%s)' % (ex.group(1), 'holds' if ex.group(1) == '0' else 'undecided')
        if sid == 'C11-m2' and res.startswith('exit 0'): via = 'superseded by fix 55ec8ae: no longer a violation'
        rows.append('| %s | %s | %s | %s |' % (sid, summ, res, via))
    return '\n'.join(rows)

def neutral_table():
    rows = ['| refactoring | what it changes (author\'s note, shortened) | property: result of `./check` on the refactored tree |', '|---|---|---|']
    for d in sorted(glob.glob(os.path.join(V, 'neutral', '*-n*'))):
        nid = os.path.basename(d)
        try: why = re.sub(r'\s+', ' ', open(os.path.join(d, 'why_behaviour_is_identical.txt')).read())[:200].replace('|', '/')
        except Exception: why = ''
        cells = []
        for f in sorted(glob.glob(os.path.join(d, 'last_check_*.txt'))):
            prop = os.path.basename(f)[len('last_check_'):-4]; t = open(f).read()
            ex = re.search(r'exit=(\d+)', t); nb = t.count('BOUNDED '); nu = t.count('UNDECIDED '); nv = t.count('VIOLATION ')
            if nv: r = '**VIOLATION (false alarm)**'
            elif ex and ex.group(1) == '0': r = 'holds' + (' (%d bounded stand-in%s)' % (nb, 's' if nb > 1 else '') if nb else ' (all proofs)')
            elif ex and ex.group(1) == '2': r = 'undecided (exit 2, %d proof%s)' % (nu, 's' if nu > 1 else '')
            else: r = 'not run'
            cells.append('%s: %s' % (prop, r))
        rows.append('| %s | %s | %s |' % (nid, why, '; '.join(cells) or 'not run'))
    return '\n'.join(rows)

def splice(text, name, body):
    a = '<!-- BEGIN GENERATED %s -->' % name; b = '<!-- END GENERATED %s -->' % name
    i = text.index(a) + len(a); j = text.index(b)
    return text[:i] + '\n' + body + '\n' + text[j:]

if __name__ == '__main__':
    p = os.path.join(V, 'DESIGN.md'); s = open(p).read()
    s = splice(s, 'status', status_table())
    s = splice(s, 'seeds', seeds_table(sys.argv[1] if len(sys.argv) > 1 else '/tmp'))
    if 'BEGIN GENERATED neutral' in s: s = splice(s, 'neutral', neutral_table())
    open(p, 'w').write(s)
    print('DESIGN.md tables regenerated')
