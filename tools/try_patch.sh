#!/bin/bash
# tools/try_patch.sh <patch.diff> <prop> [<prop>...] : run checks against a scratch copy of /repo with the patch
# applied (never touches /repo; evidence and build output go to the scratch dir, removed afterwards).
set -u
patch=$(readlink -f "$1"); shift
S=$(mktemp -d /tmp/vf_try.XXXXXX)
mkdir -p $S/repo && rsync -a --exclude _build --exclude .git /repo/ $S/repo/
( cd $S/repo && git init -q . 2>/dev/null; git apply --whitespace=nowarn "$patch" 2>&1 || patch -p1 < "$patch" ) || { echo "PATCH FAILED"; rm -rf $S; exit 3; }
rc=0
for p in "$@"; do
  VERIF_REPO=$S/repo VERIF_BUILD=$S/build VERIF_EVIDENCE_DIR=$S/evidence /verif/check $p --tier quick 2>&1 | grep -E "VIOLATION|UNDECIDED|BOUNDED|KNOWN|tier=" | sed "s|$S|<scratch>|g"
  r=${PIPESTATUS[0]}; echo "exit=$r prop=$p"
done
rm -rf $S
