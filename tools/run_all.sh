#!/bin/bash
# tools/run_all.sh [tier] : every claimed check on /repo's working tree, one after the other; summary lines to /tmp/runall_<tier>.log
tier=${1:-quick}
: > /tmp/runall_$tier.log
for p in C01 C02 C03 C04 C05 C06 C07 C08 C09 C10 C11 C12 C13 C14 C15 C16 C17 C18 C19; do
  /verif/check $p --tier $tier > /tmp/runall_$tier.$p.log 2>&1; rc=$?
  echo "$p exit=$rc $(tail -1 /tmp/runall_$tier.$p.log | cut -c1-220)" >> /tmp/runall_$tier.log
  grep -E "VIOLATION|UNDECIDED|BOUNDED" /tmp/runall_$tier.$p.log | cut -c1-300 >> /tmp/runall_$tier.log
done
echo ALLDONE >> /tmp/runall_$tier.log
