#!/usr/bin/env python3
"""setup_cmd: byte-compile the framework and check the tools it needs are present (nothing is built
ahead of time: every check rebuilds from /repo's current tree)."""
import compileall, os, shutil, sys
V = os.path.dirname(os.path.dirname(os.path.abspath(__file__)))
ok = compileall.compile_dir(os.path.join(V, 'vf'), quiet=1)
missing = [t for t in ('clang++-14', 'goto-cc', 'goto-instrument', 'cbmc', 'g++') if not shutil.which(t)]
if not os.path.isdir('/usr/include/x86_64-linux-gnu/qt5/QtCore'): missing.append('Qt5 headers')
if missing:
    print('missing:', missing); sys.exit(1)
os.makedirs(os.path.join(V, 'build'), exist_ok=True)
os.makedirs(os.path.join(V, 'evidence'), exist_ok=True)
print('setup ok'); sys.exit(0 if ok else 1)
