#!/bin/bash
# tools/run_neutral.sh <name>:<prop>[,<prop>...] ... : run the checks of the given properties against each behaviour-preserving
# refactoring under /verif/neutral/<name>/patch.diff (scratch copy); log to /tmp/neutralrun_<name>.log and keep the summary lines of every
# (patch, property) pair in /verif/neutral/<name>/last_check_<prop>.txt.  Expected: no VIOLATION line, ideally exit 0.
for spec in "$@"; do
  n=${spec%%:*}; props=${spec#*:}
  : > /tmp/neutralrun_$n.log
  for p in ${props//,/ }; do
    /verif/tools/try_patch.sh /verif/neutral/$n/patch.diff $p > /tmp/neutralrun_$n.$p.log 2>&1
    cat /tmp/neutralrun_$n.$p.log >> /tmp/neutralrun_$n.log
    grep -E "VIOLATION|UNDECIDED|BOUNDED|tier=|exit=" /tmp/neutralrun_$n.$p.log | cut -c1-500 > /verif/neutral/$n/last_check_$p.txt
  done
done
