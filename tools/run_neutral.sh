#!/bin/bash
# tools/run_neutral.sh <name>:<prop>[,<prop>...] ... : run the checks of the given properties against each behaviour-preserving
# refactoring under /verif/neutral/<name>/patch.diff (scratch copy); log to /tmp/neutralrun_<name>.log.  Expected: no VIOLATION line.
for spec in "$@"; do
  n=${spec%%:*}; props=${spec#*:}
  /verif/tools/try_patch.sh /verif/neutral/$n/patch.diff ${props//,/ } > /tmp/neutralrun_$n.log 2>&1
done
