HOOK_COMMITS = []
PENDING = 'check not built yet in this round (planned as contract proof, DESIGN 0); not claimed until its check exists'
CLAIMS = {
 'C01': {'text': 'Pipeline::process, the LogMessage accessors it uses and the contract-refinement lemma are proved against the sequential semantics for every list length, every scoped flag, every handler behaviour (handlers are "any handler" by interface contract); nesting of any depth follows by the refinement lemma.',
         'ref': 'DESIGN 3 C01',
         'note': 'Trusted: QList/QSharedPointer/QString models (sidecar part 1, models/); lowering rules; what individual built-in handlers compute is their own properties.'},
 'C16': {'text': 'LevelFilter::filter/priority over the full 5x5 domain; DuplicateFilter and SeqNumberAttr as one-step contracts plus 2- and 3-step lemmas over the real bodies from an arbitrary internal state (so every sequence follows by induction); RegExpFilter::filter = match(message).hasMatch().',
         'ref': 'DESIGN 3 C16',
         'note': 'Stated machine-range assumption: SeqNumberAttr::m_count < INT_MAX (after 2^31-1 messages m_count++ overflows). Regex verdicts are an uninterpreted function of (pattern, text) (A-regex). QString equality on content identities (null == empty as in Qt).'},
 'C17': {'text': 'Representation invariant Inv17 (list sorted by class rank, at most one formatter, new element placed after every element of its own class) required and re-established by every typed operation of SortedPipeline (appendAttrHandler, appendFilter, setFormatter, appendSink, appendPipeline, clear(type), clear<Class>s, clear()) on the lowered real code, for lists of any length: induction over all call histories. The four std::find_if loops are closed by loop contracts; their valid-range preconditions are obligations.',
         'ref': 'DESIGN 3 C17',
         'note': 'The list is abstracted by its run lengths per class (exact for sorted lists); QList::insert/remove semantics, QSet, QMutableListIterator are models (trusted). Plain Handler objects entering through the untyped append()/operator<< are outside the call alphabet of the property (precondition c[Handler]==0). Defect found and repaired by /repo commit 6eee10a (known_findings.json: fixed). Violations are replayed natively: all call sequences up to length 5 on the real class (ASan/UBSan).'},
}
NOT_APPLICABLE = {
 'C20': 'byte equality between a committed artifact and the output of a Python generator over the whole tree: no function of the library has a pre/postcondition that expresses it; deciding it means running the generator and diffing, which is a different technique.',
}
for k in ['C%02d' % i for i in range(1, 20)]:
    if k not in CLAIMS: NOT_APPLICABLE.setdefault(k, PENDING)
