HOOK_COMMITS = []
PENDING = 'check not built yet in this round (planned as contract proof, DESIGN 0); not claimed until its check exists'
CLAIMS = {
 'C01': {'text': 'Pipeline::process, the LogMessage accessors it uses and the contract-refinement lemma are proved against the sequential semantics for every list length, every scoped flag, every handler behaviour (handlers are "any handler" by interface contract); nesting of any depth follows by the refinement lemma.',
         'ref': 'DESIGN 3 C01',
         'note': 'Trusted: QList/QSharedPointer/QString models (sidecar part 1, models/); lowering rules; what individual built-in handlers compute is their own properties.'},
}
NOT_APPLICABLE = {
 'C20': 'byte equality between a committed artifact and the output of a Python generator over the whole tree: no function of the library has a pre/postcondition that expresses it; deciding it means running the generator and diffing, which is a different technique.',
}
for k in ['C%02d' % i for i in range(1, 20)]:
    if k not in CLAIMS: NOT_APPLICABLE.setdefault(k, PENDING)
