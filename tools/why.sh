#!/bin/bash
# tools/why.sh <prop> <unit> <harness> <property> [regex] : final values of ghost/state variables in the counterexample of one obligation
d=/verif/build/$1/$2
cbmc $d/$3.2.gb --object-bits 12 --sat-solver cadical --property "$4" --trace 2>&1 | grep -E "^  [A-Za-z_][A-Za-z0-9_]*(\[[0-9l]+\])?((\.|->)[A-Za-z_0-9\.]+)*=" | grep -v "={ " | sed 's/ (.*//' | awk -F'=' '{a[$1]=$0} END{for(k in a) print a[k]}' | sort | grep -E "${5:-.}" | cut -c1-100
