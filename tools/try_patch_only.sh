#!/bin/bash
# tools/try_patch_only.sh <patch.diff> <prop> <proof,...> : like try_patch.sh but runs only the named proofs (scratch copy, removed afterwards)
set -u
patch=$(readlink -f "$1"); p=$2; only=$3
S=$(mktemp -d /tmp/vf_try.XXXXXX)
mkdir -p $S/repo && rsync -a --exclude _build --exclude .git /repo/ $S/repo/
( cd $S/repo && git init -q . 2>/dev/null; git apply --whitespace=nowarn "$patch" 2>&1 || patch -p1 < "$patch" ) || { echo "PATCH FAILED"; rm -rf $S; exit 3; }
VERIF_REPO=$S/repo VERIF_BUILD=$S/build VERIF_EVIDENCE_DIR=$S/evidence /verif/check $p --tier quick --only $only 2>&1 | grep -E "VIOLATION|UNDECIDED|BOUNDED|KNOWN|tier=" | sed "s|$S|<scratch>|g" | cut -c1-900
echo "exit=${PIPESTATUS[0]} prop=$p only=$only"
rm -rf $S
