#!/usr/bin/env python3
"""Regenerates MANIFEST.json from tools/manifest_table.py (one entry per property)."""
import json, os, sys
sys.path.insert(0, os.path.dirname(os.path.abspath(__file__)))
from manifest_table import CLAIMS, NOT_APPLICABLE, HOOK_COMMITS
V = os.path.dirname(os.path.dirname(os.path.abspath(__file__)))
checks = []
for pid, c in sorted(CLAIMS.items()):
    checks.append({
        'property_id': pid,
        'quick_cmd': './check %s --tier quick' % pid,
        'thorough_cmd': './check %s --tier thorough' % pid,
        'evidence_file': 'evidence/%s.json' % pid,
        'replay_cmd_template': './check %s --replay {path}' % pid,
        'engine': 'vf',
        'level_claimed': {'category': 'proof', 'text': c['text'], 'design_ref': c['ref']},
        'level_note': c['note'],
        'technique': c.get('technique', 'CBMC 6.11 code contracts (goto-instrument --dfcc, loop contracts) on C lowered mechanically from clang\'s AST of the real functions'),
    })
m = {
    'version': 1,
    'setup_cmd': 'python3 tools/setup_check.py',
    'hooks': {'guard': 'QTLOGGER_VERIF', 'enable': 'none needed: /repo is read as is (AST extraction); no hook commits', 'baseline_off_cmd': 'cmake --build /repo/_build && ctest --test-dir /repo/_build -j8 --timeout 900', 'source_commits': HOOK_COMMITS, 'add_only': True},
    'engines': [{'name': 'vf', 'path': 'vf/', 'serves_properties': sorted(CLAIMS), 'kind_free_text': 'contract-based deductive verification: clang JSON AST of the real TUs -> mechanical lowering to C -> sidecar contracts -> goto-cc / goto-instrument --dfcc (function contracts, loop contracts) / cbmc (SAT: cadical; thorough tier: re-discharged with minisat, plus a bounded native search on the real code that proves nothing)'}],
    'checks': checks,
    'not_applicable': [{'property_id': k, 'reason': v} for k, v in sorted(NOT_APPLICABLE.items())],
    'notes': 'Exit codes: 0 held on everything explored (KNOWN-FINDING lines for recorded findings; BOUNDED lines when a proof whose loop contracts no longer fit the code was replaced by a labelled bounded stand-in, never counted as proved), 1 VIOLATION, 2 UNDECIDED (lowering gap, model gap, timeout: never a verdict). See DESIGN.md, section 10 first.',
}
json.dump(m, open(os.path.join(V, 'MANIFEST.json'), 'w'), indent=1)
print('MANIFEST.json: %d checks, %d not_applicable' % (len(checks), len(m['not_applicable'])))
