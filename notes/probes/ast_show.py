import json,sys
def load(path):
    s=open(path).read(); dec=json.JSONDecoder(); i=0; objs=[]
    while True:
        i=s.find('{',i)
        if i<0: break
        o,j=dec.raw_decode(s,i); objs.append(o); i=j
    return objs
def show(n,d=0,maxd=40):
    k=n.get('kind','?'); extra=''
    for key in ('name','opcode','value','castKind','valueCategory','isArrow','isPostfix'):
        if key in n: extra+=f' {key}={n[key]}'
    if 'type' in n: extra+=' type='+str(n['type'].get('qualType',''))
    rd=n.get('referencedDecl')
    if rd: extra+=' ref='+str(rd.get('name'))+':'+str(rd.get('type',{}).get('qualType',''))+'/'+rd.get('kind','')
    print('  '*d+k+extra)
    if d<maxd:
        for c in n.get('inner',[]): show(c,d+1,maxd)
if __name__=='__main__':
    for o in load(sys.argv[1]):
        if len(sys.argv)>2 and sys.argv[2] not in (o.get('name') or ''): continue
        if 'inner' in o: show(o)
