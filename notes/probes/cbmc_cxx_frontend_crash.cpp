// probe: CBMC C++ front-end with classes, virtuals, templates, references
template<typename T> class QSharedPointer {
public:
  T *p;
  QSharedPointer() : p(0) {}
  QSharedPointer(T *q) : p(q) {}
  T *operator->() const { return p; }
  bool isNull() const { return p == 0; }
  operator bool() const { return p != 0; }
};
template<typename T> class QList {
public:
  T d[4]; int n;
  QList() : n(0) {}
  int size() const { return n; }
  const T &at(int i) const { return d[i]; }
  void append(const T &t) { d[n++] = t; }
  T *begin() { return d; }
  T *end() { return d + n; }
};
struct LogMessage { int fm; int attrs; };
class Handler {
public:
  virtual ~Handler() {}
  virtual bool process(LogMessage &m) = 0;
};
typedef QSharedPointer<Handler> HandlerPtr;
class Pipeline : public Handler {
public:
  QList<HandlerPtr> m_handlers; bool m_scoped;
  bool process(LogMessage &lmsg);
};
bool Pipeline::process(LogMessage &lmsg)
{
  int fm = 0, at = 0;
  if (m_scoped) { fm = lmsg.fm; at = lmsg.attrs; }
  for (HandlerPtr *it = m_handlers.begin(); it != m_handlers.end(); ++it) { HandlerPtr &handler = *it;
    if (!handler) continue;
    if (!handler->process(lmsg)) break;
  }
  if (m_scoped) { lmsg.fm = fm; lmsg.attrs = at; }
  return true;
}
class F : public Handler { public: bool process(LogMessage &m) { m.fm = 7; return false; } };
int main() {
  Pipeline p; p.m_scoped = true; F f; p.m_handlers.append(HandlerPtr(&f));
  LogMessage m; m.fm = 1; m.attrs = 2;
  bool r = p.process(m);
  __CPROVER_assert(r, "true");
  __CPROVER_assert(m.fm == 1, "restored");
  return 0;
}
