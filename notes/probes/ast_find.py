import json,sys
from show import load, show
objs=load(sys.argv[1]); want=sys.argv[2]
maxd=int(sys.argv[3]) if len(sys.argv)>3 else 40
def walk(n,path=''):
    nm=n.get('name')
    p=path+'::'+nm if nm else path
    if n.get('kind') in ('CXXMethodDecl','FunctionDecl','CXXConstructorDecl','CXXDestructorDecl') and nm is not None and want in p and any(c.get('kind')=='CompoundStmt' for c in n.get('inner',[])):
        print('=====',p, n.get('type',{}).get('qualType')); show(n,0,maxd); return
    for c in n.get('inner',[]): walk(c,p)
for o in objs: walk(o)
