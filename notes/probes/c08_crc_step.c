#include <stdint.h>
typedef uint32_t quint32;
static quint32 table[256];
static void gen(void){
  const quint32 polynomial = 0xEDB88320;
  for (quint32 i = 0; i < 256; i++) {
    quint32 value = i;
    for (int j = 0; j < 8; j++) { if (value & 1) value = (value >> 1) ^ polynomial; else value >>= 1; }
    table[i] = value;
  }
}
/* spec: bitwise CRC-32 step (RFC 1952 / ISO 3309 reflected) */
static quint32 spec_step(quint32 crc, unsigned char b){
  crc ^= b;
  for (int k=0;k<8;k++) crc = (crc & 1) ? (crc >> 1) ^ 0xEDB88320u : (crc >> 1);
  return crc;
}
quint32 nondet_u32(void); unsigned char nondet_uc(void);
int main(void){
  gen();
  quint32 crc = nondet_u32(); unsigned char b = nondet_uc();
  quint32 impl = table[(crc ^ (unsigned char)b) & 0xFF] ^ (crc >> 8);
  __CPROVER_assert(impl == spec_step(crc,b), "table step == bitwise step for all crc,b");
}
