#include <limits.h>
typedef struct { int len; } QByteArray;
char nondet_char(void); int nondet_int(void);
char QByteArray_at(const QByteArray *s, int i)
__CPROVER_requires(0 <= i && i < s->len) __CPROVER_assigns() ;
int QByteArray_lastIndexOf_c(const QByteArray *s, char c)
__CPROVER_assigns() __CPROVER_ensures(-1 <= __CPROVER_return_value && __CPROVER_return_value < s->len);
int QByteArray_lastIndexOf_s_from(const QByteArray *s, int patlen, int from)
__CPROVER_requires(patlen >= 0) __CPROVER_assigns()
__CPROVER_ensures(-1 <= __CPROVER_return_value && (__CPROVER_return_value == -1 || (__CPROVER_return_value + patlen <= s->len && __CPROVER_return_value <= from)));
QByteArray QByteArray_mid(const QByteArray *s, int pos, int n)
__CPROVER_assigns()
__CPROVER_ensures(0 <= __CPROVER_return_value.len && __CPROVER_return_value.len <= s->len && (n >= 0 ==> __CPROVER_return_value.len <= n));
int QByteArray_eq_lit(QByteArray a, int litlen) __CPROVER_assigns() __CPROVER_ensures((__CPROVER_return_value != 0) ==> a.len == litlen);
int QByteArray_startsWith_lit(QByteArray a, int litlen) __CPROVER_assigns() __CPROVER_ensures((__CPROVER_return_value != 0) ==> a.len >= litlen);
int QByteArray_contains_c(const QByteArray *a, char c) __CPROVER_assigns();
void QByteArray_remove(QByteArray *s, int pos, int n)
__CPROVER_assigns(s->len)
__CPROVER_ensures((n <= 0 || pos < 0 || pos >= __CPROVER_old(s->len)) ==> s->len == __CPROVER_old(s->len))
__CPROVER_ensures((n > 0 && pos >= 0 && pos < __CPROVER_old(s->len)) ==> s->len == ((n >= __CPROVER_old(s->len) - pos) ? pos : __CPROVER_old(s->len) - n));

/* lowered lambda: captures func by reference */
int findBalancedReverse(QByteArray *func, char open, char close, int startPos)
__CPROVER_requires(__CPROVER_is_fresh(func, sizeof(*func)) && func->len >= 0 && func->len <= 0x7fffffe0 && startPos <= func->len)
__CPROVER_assigns()
__CPROVER_ensures(-1 <= __CPROVER_return_value && __CPROVER_return_value < startPos || __CPROVER_return_value == -1)
{
    if (startPos <= 0)
        return -1;
    int count = 1;
    int pos = startPos - 1;
    while (pos >= 0 && count > 0)
    __CPROVER_assigns(pos, count)
    __CPROVER_loop_invariant(-1 <= pos && pos < startPos && 0 <= count && count <= startPos - pos)
    __CPROVER_decreases(pos + 1)
    {
        char c = QByteArray_at(func, pos);
        if (c == close)
            ++count;
        else if (c == open)
            --count;
        --pos;
    }
    return (count == 0) ? pos + 1 : -1;
}

void template_loop(QByteArray *func)
__CPROVER_requires(__CPROVER_is_fresh(func, sizeof(*func)) && func->len >= 0 && func->len <= 0x7fffffe0)
__CPROVER_assigns(func->len)
__CPROVER_ensures(func->len <= __CPROVER_old(func->len))
{
    while (1)
    __CPROVER_assigns(func->len)
    __CPROVER_loop_invariant(0 <= func->len && func->len <= __CPROVER_loop_entry(func->len))
    __CPROVER_decreases(func->len)
    {
        int closeAngle = QByteArray_lastIndexOf_c(func, '>');
        if (closeAngle == -1)
            break;
        int opCheck = QByteArray_lastIndexOf_s_from(func, 8, closeAngle);
        if (opCheck != -1) {
            int operatorEnd = opCheck + 8;
            if (operatorEnd <= closeAngle) {
                int isOperatorSymbol = 1;
                for (int i = operatorEnd; i <= closeAngle; ++i)
                __CPROVER_assigns(i, isOperatorSymbol)
                __CPROVER_loop_invariant(operatorEnd <= i && i <= closeAngle + 1)
                __CPROVER_decreases(closeAngle + 1 - i)
                {
                    char ch = QByteArray_at(func, i);
                    if (!nondet_int()) { isOperatorSymbol = 0; break; }
                }
                if (isOperatorSymbol)
                    break;
            }
        }
        int openAngle = findBalancedReverse(func, '<', '>', closeAngle);
        if (openAngle == -1)
            break;
        QByteArray t1 = QByteArray_mid(func, openAngle - 8, 8);
        if (openAngle >= 8 && QByteArray_eq_lit(t1, 8))
            break;
        QByteArray t2 = QByteArray_mid(func, openAngle + 1, closeAngle - openAngle - 1);
        if (QByteArray_startsWith_lit(t2, 6))
            break;
        QByteArray_remove(func, openAngle, closeAngle - openAngle + 1);
    }
}
void h1(void){ QByteArray *f; int s; findBalancedReverse(f,'(',')',s); }
void h2(void){ QByteArray *f; template_loop(f); }
