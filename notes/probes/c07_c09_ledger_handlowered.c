/* PROBE (hand-lowered from rotatingfilesink.cpp:84-141, 351-356) for the C07/C09 ledger design */
#include <limits.h>
typedef struct { int m_maxFileSize, m_maxFileCount, m_rotationOnStartup, m_rotationDaily, m_compression;
                 int m_currentLogDate; int m_initialized; } Priv;
typedef struct { int day; int utf8len; } LogMessage;        /* ident/len abstraction of time().date() and formattedMessage().toUtf8().size() */

/* ---- ghost ledger ---- */
long long g_Asize; long long g_Arecs; int g_Aday; int g_today; int g_mixed; int g_exists; int g_mtime_day;

/* ---- models (A-fs, A-clock) ---- */
long long QFile_size(void) __CPROVER_assigns() __CPROVER_ensures(__CPROVER_return_value == g_Asize);
int QDate_currentDate(void) __CPROVER_assigns() __CPROVER_ensures(__CPROVER_return_value == g_today);
int QFileInfo_exists(void) __CPROVER_assigns() __CPROVER_ensures(__CPROVER_return_value == g_exists);
int QFileInfo_lastModified_date(void) __CPROVER_assigns() __CPROVER_ensures(__CPROVER_return_value == g_mtime_day);
void FileSink_send(const LogMessage *lmsg)      /* IODeviceSink::send: one write of bytes + '\n' (local8bit len <= utf8 len) */
__CPROVER_assigns(g_Asize, g_Arecs, g_Aday, g_mixed)
__CPROVER_ensures(g_Asize == __CPROVER_old(g_Asize) + lmsg->utf8len + 1 && g_Arecs == __CPROVER_old(g_Arecs) + 1)
__CPROVER_ensures(g_Aday == lmsg->day)
__CPROVER_ensures(g_mixed == (__CPROVER_old(g_mixed) || (__CPROVER_old(g_Arecs) > 0 && __CPROVER_old(g_Aday) != lmsg->day)));

#define INV7(p) (!((p)->m_maxFileSize > 0 && (p)->m_maxFileCount != 1) || g_Asize <= (p)->m_maxFileSize || g_Arecs == 1 || g_Arecs == 0)
#define LEDGER  (g_Asize >= 0 && g_Arecs >= 0 && (g_Arecs == 0) == (g_Asize == 0) && g_Asize <= (1LL << 50) && g_Arecs <= (1LL << 50))

/* rotate(): real code, here replaced by its contract (rename assumed to succeed for C07/C09) */
void Priv_rotate(Priv *self)
__CPROVER_requires(INV7(self))                     /* the block that is frozen as a rotated file obeys the size rule */
__CPROVER_assigns(g_Asize, g_Arecs, self->m_currentLogDate)
__CPROVER_ensures(self->m_maxFileCount == 1 ==> (g_Asize == __CPROVER_old(g_Asize) && g_Arecs == __CPROVER_old(g_Arecs) && self->m_currentLogDate == __CPROVER_old(self->m_currentLogDate)))
__CPROVER_ensures(self->m_maxFileCount != 1 ==> (g_Asize == 0 && g_Arecs == 0 && self->m_currentLogDate == g_today));

/* ---- hand-lowered real code ---- */
void Priv_checkStartupRotation(Priv *self) { if (QFile_size() > 0) { Priv_rotate(self); } }
void Priv_init(Priv *self)
{
    if (self->m_initialized) return;
    self->m_initialized = 1;
    if (QFileInfo_exists() && QFile_size() > 0) { self->m_currentLogDate = QFileInfo_lastModified_date(); }
    else { self->m_currentLogDate = QDate_currentDate(); }
    if (self->m_rotationOnStartup) { Priv_checkStartupRotation(self); }
}
void Priv_checkDailyRotation(Priv *self, int messageDate)
{
    if (messageDate != self->m_currentLogDate && QFile_size() > 0) { Priv_rotate(self); self->m_currentLogDate = messageDate; }
}
void Priv_checkSizeRotation(Priv *self, int additionalSize)
{
    if (self->m_maxFileSize <= 0) return;
    const long long currentSize = QFile_size();
    if (currentSize > 0 && (currentSize + additionalSize) > self->m_maxFileSize) { Priv_rotate(self); }
}
void Priv_rotateIfNeeded(Priv *self, const LogMessage *lmsg)
{
    const int messageDate = lmsg->day;
    if (self->m_rotationDaily) { Priv_checkDailyRotation(self, messageDate); }
    if (self->m_maxFileSize > 0) { const int additionalSize = lmsg->utf8len + 1; Priv_checkSizeRotation(self, additionalSize); }
}
/* ---- sidecar: contract of RotatingFileSink::send from C07 / C09 ---- */
void RotatingFileSink_send(Priv *d, const LogMessage *lmsg)
__CPROVER_requires(__CPROVER_is_fresh(d, sizeof(*d)) && __CPROVER_is_fresh(lmsg, sizeof(*lmsg)))
__CPROVER_requires(LEDGER && lmsg->utf8len >= 0 && lmsg->utf8len <= 0x7fffffde && (d->m_initialized == 0 || d->m_initialized == 1))
__CPROVER_requires(lmsg->day <= g_today)                                               /* A-clock */
__CPROVER_requires(g_exists == (g_Asize > 0 ? 1 : g_exists) && (g_exists == 0 || g_exists == 1))
__CPROVER_requires(!d->m_initialized ==> (g_Arecs > 0 ==> g_mtime_day == g_Aday))     /* restart: mtime day = day of last record */
__CPROVER_requires(d->m_initialized ==> (!(d->m_rotationDaily && d->m_maxFileCount != 1) || g_Arecs == 0 || d->m_currentLogDate == g_Aday))
__CPROVER_requires(INV7(d) && !g_mixed)
__CPROVER_assigns(g_Asize, g_Arecs, g_Aday, g_mixed, d->m_currentLogDate, d->m_initialized)
__CPROVER_ensures(INV7(d))                                                             /* C07 */
__CPROVER_ensures((d->m_rotationDaily && d->m_maxFileCount != 1) ==> !g_mixed)         /* C09: days never share a file */
__CPROVER_ensures((d->m_rotationDaily && d->m_maxFileCount != 1) ==> d->m_currentLogDate == g_Aday)   /* C09: Inv9 */
{
    Priv_init(d);
    Priv_rotateIfNeeded(d, lmsg);
    FileSink_send(lmsg);
}
void harness(void) { Priv *d; LogMessage *m; RotatingFileSink_send(d, m); }
