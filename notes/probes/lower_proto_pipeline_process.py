#!/usr/bin/env python3
"""PROBE ONLY (design phase): throwaway prototype of the clang-JSON-AST -> C lowering,
just wide enough for QtLogger::Pipeline::process. Not part of the machinery."""
import json, re, sys

def load(path):
    s = open(path).read(); dec = json.JSONDecoder(); i = 0; objs = []
    while True:
        i = s.find('{', i)
        if i < 0: break
        o, j = dec.raw_decode(s, i); objs.append(o); i = j
    return objs

class Unsupported(Exception): pass

def ctype(q):
    q0 = q
    q = q.replace('const ', '').replace('QtLogger::', '').strip()
    ref = q.endswith('&'); q = q.rstrip('&').strip()
    ptr = q.endswith('*'); q = q.rstrip('*').strip()
    table = {
        'bool': 'bool', 'int': 'int', 'QString': 'QString', 'QVariantHash': 'QVariantHash',
        'QHash<QString, QVariant>': 'QVariantHash', 'LogMessage': 'LogMessage', 'Pipeline': 'Pipeline',
        'Handler': 'Handler', 'HandlerPtr': 'HandlerPtr', 'QSharedPointer<Handler>': 'HandlerPtr',
        'QList<HandlerPtr>': 'QList_HandlerPtr', 'QList<QSharedPointer<Handler>>': 'QList_HandlerPtr',
        'QList<QSharedPointer<Handler>>::iterator': 'QList_HandlerPtr_iterator',
    }
    if q not in table: raise Unsupported('type ' + q0)
    return table[q], ref, ptr

def cls_of(q):
    return ctype(q)[0]

class Lower:
    def __init__(self):
        self.refs = set()      # names that are pointers in C but references in C++
        self.log = []          # rule applications
        self.loops = 0
    def rule(self, r): self.log.append(r)

    # ---------- expressions ----------
    def e(self, n):
        k = n['kind']
        m = getattr(self, 'e_' + k, None)
        if not m: raise Unsupported('expr ' + k)
        return m(n)
    def passthru(self, n): return self.e(n['inner'][0])
    e_ExprWithCleanups = e_MaterializeTemporaryExpr = e_CXXBindTemporaryExpr = e_ParenExpr = passthru
    def e_ImplicitCastExpr(self, n):
        ck = n['castKind']
        if ck in ('LValueToRValue', 'NoOp', 'FunctionToPointerDecay', 'UncheckedDerivedToBase', 'DerivedToBase'):
            return self.e(n['inner'][0])
        raise Unsupported('cast ' + ck)
    def e_CXXThisExpr(self, n): return 'self'
    def e_CXXBoolLiteralExpr(self, n): return 'true' if n['value'] else 'false'
    def e_IntegerLiteral(self, n): return n['value']
    def e_DeclRefExpr(self, n):
        name = n['referencedDecl']['name']
        return f'(*{name})' if name in self.refs else name
    def e_MemberExpr(self, n):
        base = self.e(n['inner'][0])
        return f"{base}{'->' if n['isArrow'] else '.'}{n['name']}"
    def e_UnaryOperator(self, n):
        x = self.e(n['inner'][0]); op = n['opcode']
        return f'({x}{op})' if n.get('isPostfix') else f'({op}{x})'
    def e_BinaryOperator(self, n):
        a, b = (self.e(x) for x in n['inner']); return f"({a} {n['opcode']} {b})"
    def addr(self, n):
        """C expression for the address of lvalue n (receiver / by-reference argument)."""
        x = self.e(n)
        return x[2:-1] if x.startswith('(*') and x.endswith(')') else f'&{x}'
    def e_CXXConstructExpr(self, n):
        t = cls_of(n['type']['qualType']); args = n.get('inner', [])
        if not args: self.rule('ctor-default'); return f'{t}_ctor_default()'
        if len(args) == 1 and cls_of(args[0]['type']['qualType']) == t:
            self.rule('ctor-copy'); return self.e(args[0])          # value semantics
        raise Unsupported('ctor ' + t)
    def e_CXXMemberCallExpr(self, n):
        callee, *args = n['inner']
        assert callee['kind'] == 'MemberExpr'
        base = callee['inner'][0]
        bt = base['type']['qualType']
        cls, _, isptr = ctype(bt)
        recv = self.e(base) if callee['isArrow'] else self.addr(base)
        cargs = []
        for a in args:
            # class-typed lvalue argument of a repo class => passed by reference => pointer
            at = a['type']['qualType']
            if a.get('valueCategory') == 'lvalue' and cls_of(at) in ('LogMessage',):
                cargs.append(self.addr(a))
            else:
                cargs.append(self.e(a))
        self.rule(f'member-call {cls}::{callee["name"]}')
        return f"{cls}_{callee['name']}({', '.join([recv] + cargs)})"
    def e_CXXOperatorCallExpr(self, n):
        callee, *args = n['inner']
        d = callee
        while d['kind'] != 'DeclRefExpr': d = d['inner'][0]
        op = d['referencedDecl']['name']
        t0 = cls_of(args[0]['type']['qualType'])
        self.rule(f'operator {t0} {op}')
        if op == 'operator=' and t0 in ('QString', 'QVariantHash'):
            return f'({self.e(args[0])} = {self.e(args[1])})'
        if t0 == 'QList_HandlerPtr_iterator':
            if op == 'operator!=': return f'({self.e(args[0])}.i != {self.e(args[1])}.i)'
            if op == 'operator++': return f'(++{self.e(args[0])}.i)'
            if op == 'operator*':  return f'(*QList_HandlerPtr_iterator_deref({self.e(args[0])}))'
        if t0 == 'HandlerPtr':
            if op == 'operator!':  return f'({self.e(args[0])}.p == 0)'
            if op == 'operator->': return f'{self.e(args[0])}.p'
        raise Unsupported(f'{op} on {t0}')

    # ---------- statements ----------
    def s(self, n, ind):
        k = n['kind']
        m = getattr(self, 's_' + k, None)
        if m: return m(n, ind)
        return ind + self.e(n) + ';\n'                     # expression statement
    def s_CompoundStmt(self, n, ind):
        return ind + '{\n' + ''.join(self.s(c, ind + '    ') for c in n.get('inner', [])) + ind + '}\n'
    def s_DeclStmt(self, n, ind):
        out = ''
        for v in n['inner']:
            t, ref, ptr = ctype(v['type']['qualType'])
            init = v.get('inner', [])
            if ref:
                self.refs.add(v['name']); self.rule('reference-local->pointer')
                out += f"{ind}{t} *{v['name']} = {self.addr(init[0])};\n"
            else:
                out += f"{ind}{t} {v['name']}" + (f" = {self.e(init[0])}" if init else '') + ';\n'
        return out
    def s_IfStmt(self, n, ind):
        c, th, *el = n['inner']
        out = f'{ind}if ({self.e(c)})\n' + self.s(th, ind + ('' if th['kind']=='CompoundStmt' else '    '))
        if el: out += f'{ind}else\n' + self.s(el[0], ind + ('' if el[0]['kind']=='CompoundStmt' else '    '))
        return out
    def s_ContinueStmt(self, n, ind): return ind + 'continue;\n'
    def s_BreakStmt(self, n, ind): return ind + 'break;\n'
    def s_ReturnStmt(self, n, ind):
        return ind + 'return' + (' ' + self.e(n['inner'][0]) if n.get('inner') else '') + ';\n'
    def s_CXXForRangeStmt(self, n, ind):
        init, rng, beg, end, cond, inc, var, body = n['inner']
        k = self.loops; self.loops += 1; self.rule('range-for (clang desugaring)')
        out = ind + '{\n' + self.s_DeclStmt(rng, ind+'    ') + self.s_DeclStmt(beg, ind+'    ') + self.s_DeclStmt(end, ind+'    ')
        out += f"{ind}    for (; {self.e(cond)}; {self.e(inc)})\n{ind}    LOOP_CONTRACT_{k}\n{ind}    {{\n"
        out += self.s_DeclStmt(var, ind + '        ')
        out += ''.join(self.s(c, ind + '        ') for c in body.get('inner', []))
        out += ind + '    }\n' + ind + '}\n'
        return out

    def function(self, d, cls):
        params = [p for p in d['inner'] if p['kind'] == 'ParmVarDecl']
        body = [c for c in d['inner'] if c['kind'] == 'CompoundStmt'][0]
        ret = d['type']['qualType'].split('(')[0].strip()
        ps = [f'{cls} *self']
        for p in params:
            t, ref, ptr = ctype(p['type']['qualType'])
            if ref: self.refs.add(p['name']); ps.append(f"{t} *{p['name']}")
            else: ps.append(f"{t} {p['name']}")
        return f"{ctype(ret)[0]} {cls}_{d['name']}({', '.join(ps)})\n" + self.s(body, '')

if __name__ == '__main__':
    objs = load(sys.argv[1])
    fn = [o for o in objs if o.get('kind') == 'CXXMethodDecl' and o.get('name') == 'process'
          and any(c.get('kind') == 'CompoundStmt' for c in o.get('inner', []))][0]
    L = Lower()
    print(L.function(fn, 'Pipeline'))
    print('/* rules: ' + '; '.join(L.log) + ' */', file=sys.stderr)
