// virtual wall clock by interposing clock_gettime/gettimeofday in the executable
#include <time.h>
#include <sys/time.h>
#include <dlfcn.h>
#include <QCoreApplication>
#include <QDir>
#include <QDateTime>
#include "qtlogger.h"
static long long g_offset_s = 0;
extern "C" int clock_gettime(clockid_t id, struct timespec *ts) {
  static int (*real)(clockid_t, struct timespec*) = (int(*)(clockid_t, struct timespec*))dlsym(RTLD_NEXT, "clock_gettime");
  int r = real(id, ts);
  if (id == CLOCK_REALTIME || id == CLOCK_REALTIME_COARSE) ts->tv_sec += g_offset_s;
  return r;
}
extern "C" int gettimeofday(struct timeval *tv, void *tz) {
  static int (*real)(struct timeval*, void*) = (int(*)(struct timeval*, void*))dlsym(RTLD_NEXT, "gettimeofday");
  int r = real(tv, tz); if (tv) tv->tv_sec += g_offset_s; return r;
}
using namespace QtLogger;
static void dump(const char*dir){ for (auto &e : QDir(dir).entryInfoList(QDir::Files, QDir::Name)) { QFile f(e.filePath()); f.open(QIODevice::ReadOnly); printf("  %s:\n", qPrintable(e.fileName())); for (auto l : f.readAll().split('\n')) if (!l.isEmpty()) printf("      %s\n", l.constData()); } }
int main(int argc,char**argv){
  QCoreApplication app(argc,argv);
  const char *dir="/tmp/probe/asan/rot9";
  QDir(dir).removeRecursively(); QDir().mkpath(dir);
  QMessageLogContext ctx("f.cpp",1,"fn","cat");
  QString D0 = QDate::currentDate().toString(Qt::ISODate);
  {
    printf("scenario A: message created on day D, processed (first send => lazy init) on day D+1, empty file\n");
    RotatingFileSink s(QString(dir)+"/a.log", 0, 0, RotatingFileSink::RotationDaily);
    LogMessage m1(QtDebugMsg, ctx, "rec1 created " + D0);
    g_offset_s = 86400;
    s.send(m1);
    LogMessage m2(QtDebugMsg, ctx, "rec2 created " + QDate::currentDate().toString(Qt::ISODate));
    s.send(m2); s.flush();
    dump(dir);
  }
  g_offset_s = 0; QDir(dir).removeRecursively(); QDir().mkpath(dir);
  {
    printf("scenario B: size rotation performed on day D+1 for a message created on day D, then another day-D message\n");
    RotatingFileSink s(QString(dir)+"/b.log", 40, 0, RotatingFileSink::RotationDaily);
    LogMessage m0(QtDebugMsg, ctx, "rec0 created " + D0 + " xxxxxxxxxx"); s.send(m0);
    LogMessage m1(QtDebugMsg, ctx, "rec1 created " + D0 + " xxxxxxxxxx");
    LogMessage m2(QtDebugMsg, ctx, "rec2 created " + D0 + " x");
    g_offset_s = 86400;            // worker runs after midnight
    s.send(m1);                    // size rotation; rotate() sets m_currentLogDate = wall clock (D+1)
    s.send(m2);                    // messageDate D != D+1 and file non-empty => daily rotation named D+1 holding a day-D record
    s.flush();
    dump(dir);
  }
}
