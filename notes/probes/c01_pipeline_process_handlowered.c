#include <stdbool.h>
#include <stddef.h>
typedef struct { int isnull; int id; } QString;
typedef struct { int id; } QVariantHash;
typedef struct { QString m_message; QString m_formattedMessage; QVariantHash m_attributes; } LogMessage;
typedef struct Handler Handler;
typedef struct { Handler *p; } HandlerPtr;
#define NMAX 8
typedef struct { HandlerPtr d[NMAX]; int n; } QList_HandlerPtr;
typedef struct { QList_HandlerPtr m_handlers; bool m_scoped; } Pipeline;

/* ghost */
int g_at_index; Handler *g_at_value;
int g_last_idx; bool g_rejected; int g_reject_idx;
int g_k; bool g_called_k;
QString g_fm; QVariantHash g_attrs; /* state after previous call */

bool nondet_bool(void); int nondet_int(void);

/* model: QList::at recording ghost index */
HandlerPtr QList_at(const QList_HandlerPtr *l, int i)
__CPROVER_requires(0 <= i && i < l->n)
__CPROVER_assigns(g_at_index, g_at_value)
__CPROVER_ensures(g_at_index == i && g_at_value == l->d[i].p && __CPROVER_return_value.p == l->d[i].p)
;
/* interface contract: any handler */
bool Handler_process(Handler *h, LogMessage *lmsg)
__CPROVER_requires(h != NULL && h == g_at_value)
__CPROVER_requires(g_at_index > g_last_idx)
__CPROVER_requires(!g_rejected)
__CPROVER_requires(lmsg->m_formattedMessage.isnull == g_fm.isnull && lmsg->m_formattedMessage.id == g_fm.id && lmsg->m_attributes.id == g_attrs.id)
__CPROVER_assigns(lmsg->m_formattedMessage, lmsg->m_attributes, g_last_idx, g_rejected, g_reject_idx, g_called_k, g_fm, g_attrs)
__CPROVER_ensures(g_last_idx == g_at_index)
__CPROVER_ensures(g_rejected == !__CPROVER_return_value)
__CPROVER_ensures(g_rejected ==> g_reject_idx == g_at_index)
__CPROVER_ensures(g_called_k == (__CPROVER_old(g_called_k) || g_at_index == g_k)) __CPROVER_ensures(lmsg->m_formattedMessage.isnull==0||lmsg->m_formattedMessage.isnull==1)
__CPROVER_ensures(lmsg->m_formattedMessage.isnull == g_fm.isnull && lmsg->m_formattedMessage.id == g_fm.id && lmsg->m_attributes.id == g_attrs.id)
;

bool LogMessage_isFormatted(const LogMessage *m) { return !m->m_formattedMessage.isnull; }
QString LogMessage_formattedMessage(const LogMessage *m) { return LogMessage_isFormatted(m) ? m->m_formattedMessage : m->m_message; }

bool Pipeline_process(Pipeline *self, LogMessage *lmsg)
__CPROVER_requires(__CPROVER_is_fresh(self, sizeof(*self)) && __CPROVER_is_fresh(lmsg, sizeof(*lmsg)))
__CPROVER_requires(0 <= self->m_handlers.n && self->m_handlers.n <= NMAX && (lmsg->m_formattedMessage.isnull==0||lmsg->m_formattedMessage.isnull==1))
__CPROVER_requires(g_last_idx == -1 && !g_rejected && !g_called_k && 0 <= g_k && g_k < self->m_handlers.n)
__CPROVER_requires(lmsg->m_formattedMessage.isnull == g_fm.isnull && lmsg->m_formattedMessage.id == g_fm.id && lmsg->m_attributes.id == g_attrs.id)
__CPROVER_assigns(lmsg->m_formattedMessage, lmsg->m_attributes, g_last_idx, g_rejected, g_reject_idx, g_called_k, g_fm, g_attrs, g_at_index, g_at_value)
__CPROVER_ensures(__CPROVER_return_value == true)
__CPROVER_ensures(self->m_scoped ==> (lmsg->m_formattedMessage.isnull == __CPROVER_old(lmsg->m_formattedMessage.isnull) && (lmsg->m_formattedMessage.isnull || lmsg->m_formattedMessage.id == __CPROVER_old(lmsg->m_formattedMessage.id)) && lmsg->m_attributes.id == __CPROVER_old(lmsg->m_attributes.id)))
__CPROVER_ensures(!self->m_scoped ==> (lmsg->m_formattedMessage.isnull == g_fm.isnull && lmsg->m_formattedMessage.id == g_fm.id && lmsg->m_attributes.id == g_attrs.id))
__CPROVER_ensures((self->m_handlers.d[g_k].p != NULL && !(g_rejected && g_reject_idx < g_k)) ==> g_called_k)
{
    QString fmsg = (QString){ 1, 0 };
    QVariantHash attrs = (QVariantHash){ 0 };

    if (self->m_scoped) {
        if (LogMessage_isFormatted(lmsg)) {
            fmsg = LogMessage_formattedMessage(lmsg);
        }
        attrs = lmsg->m_attributes;
    }

    for (int _i = 0; _i < self->m_handlers.n; ++_i)
    __CPROVER_assigns(_i, lmsg->m_formattedMessage, lmsg->m_attributes, g_last_idx, g_rejected, g_reject_idx, g_called_k, g_fm, g_attrs, g_at_index, g_at_value)
    __CPROVER_loop_invariant(0 <= _i && _i <= self->m_handlers.n)
    __CPROVER_loop_invariant(g_last_idx < _i && !g_rejected && (lmsg->m_formattedMessage.isnull==0||lmsg->m_formattedMessage.isnull==1))
    __CPROVER_loop_invariant(lmsg->m_formattedMessage.isnull == g_fm.isnull && lmsg->m_formattedMessage.id == g_fm.id && lmsg->m_attributes.id == g_attrs.id)
    __CPROVER_loop_invariant((_i > g_k && self->m_handlers.d[g_k].p != NULL) ==> g_called_k)
    __CPROVER_decreases(self->m_handlers.n - _i)
    {
        HandlerPtr handler = QList_at(&self->m_handlers, _i);
        if (!handler.p)
            continue;
        if (!Handler_process(handler.p, lmsg))
            break;
    }

    if (self->m_scoped) {
        lmsg->m_formattedMessage = fmsg;
        lmsg->m_attributes = attrs;
    }
    return true;
}
void harness(void) { Pipeline *p; LogMessage *m; Pipeline_process(p, m); }
