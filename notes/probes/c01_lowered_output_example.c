bool Pipeline_process(Pipeline *self, LogMessage *lmsg)
{
    QString fmsg = QString_ctor_default();
    QVariantHash attrs = QVariantHash_ctor_default();
    if (self->m_scoped)
    {
        if (LogMessage_isFormatted(lmsg))
        {
            (fmsg = LogMessage_formattedMessage(lmsg));
        }
        (attrs = LogMessage_attributes(lmsg));
    }
    {
        QList_HandlerPtr *__range1 = &self->m_handlers;
        QList_HandlerPtr_iterator __begin1 = QList_HandlerPtr_begin(__range1);
        QList_HandlerPtr_iterator __end1 = QList_HandlerPtr_end(__range1);
        for (; (__begin1.i != __end1.i); (++__begin1.i))
        LOOP_CONTRACT_0
        {
            HandlerPtr *handler = QList_HandlerPtr_iterator_deref(__begin1);
            if (((*handler).p == 0))
                continue;
            if ((!Handler_process((*handler).p, lmsg)))
                break;
        }
    }
    if (self->m_scoped)
    {
        LogMessage_setFormattedMessage(lmsg, fmsg);
        LogMessage_setAttributes(lmsg, attrs);
    }
    return true;
}

