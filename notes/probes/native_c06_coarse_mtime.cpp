#include <QCoreApplication>
#include <QDir>
#include <sys/stat.h>
#include <fcntl.h>
#include "qtlogger.h"
using namespace QtLogger;
static void coarse(const char*dir){ // emulate 1 s file-system timestamp granularity
  for (auto &e : QDir(dir).entryInfoList(QDir::Files)) { struct stat st; stat(e.filePath().toLocal8Bit(), &st); struct timespec ts[2] = {{st.st_atim.tv_sec,0},{st.st_mtim.tv_sec - (st.st_mtim.tv_sec % 60),0}}; utimensat(AT_FDCWD, e.filePath().toLocal8Bit(), ts, 0);} }
int main(int argc,char**argv){
  QCoreApplication app(argc,argv);
  const char *dir="/tmp/probe/asan/rot6";
  QDir(dir).removeRecursively(); QDir().mkpath(dir);
  RotatingFileSink s(QString(dir)+"/app.log", 20, 4, RotatingFileSink::None);
  QMessageLogContext ctx("f.cpp",1,"fn","cat");
  for (int i=0;i<13;i++) { LogMessage m(QtDebugMsg, ctx, QString("record-%1-xxxxxxxx").arg(i,2,10,QChar('0'))); s.send(m); s.flush(); coarse(dir); }
  for (auto &e : QDir(dir).entryInfoList(QDir::Files, QDir::Name)) { QFile f(e.filePath()); f.open(QIODevice::ReadOnly); printf("%s : %s", qPrintable(e.fileName()), f.readAll().constData()); }
}
