typedef struct { int len; } QBA;
int nondet_int(void);
/* sidecar: contract on declaration */
int f(QBA *s, int n)
__CPROVER_requires(__CPROVER_is_fresh(s, sizeof(*s)) && s->len >= 0 && n >= 0)
__CPROVER_assigns(s->len)
__CPROVER_ensures(s->len <= __CPROVER_old(s->len) && __CPROVER_return_value >= 0);
/* lowered definition (no contract text here) */
int f(QBA *s, int n)
{
  int r = ({ int _t = s->len; _t > n ? _t - n : 0; });
  s->len = r;
  return r;
}
void harness(void){ QBA *s; int n; f(s,n); }
