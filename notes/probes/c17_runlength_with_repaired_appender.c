/* PROBE: run-length abstraction of a sorted handler list for C17 (hand-lowered sortedpipeline.cpp:5-20, 56-65) */
enum { T_Handler = 0, T_Attr, T_Filter, T_Formatter, T_Sink, T_Pipeline, NT };
typedef struct { int c[NT]; } QList_H;                 /* abstract list: run lengths, valid exactly when the list is sorted by class */
#define CUM1(l) ((l)->c[0] + (l)->c[1])
#define CUM2(l) (CUM1(l) + (l)->c[2])
#define CUM3(l) (CUM2(l) + (l)->c[3])
#define CUM4(l) (CUM3(l) + (l)->c[4])
#define SIZE(l) (CUM4(l) + (l)->c[5])
#define WF(l) ((l)->c[0] == 0 && (l)->c[1] >= 0 && (l)->c[2] >= 0 && (l)->c[3] >= 0 && (l)->c[4] >= 0 && (l)->c[5] >= 0 && \
               (l)->c[1] <= 1000000 && (l)->c[2] <= 1000000 && (l)->c[3] <= 1000000 && (l)->c[4] <= 1000000 && (l)->c[5] <= 1000000)
#define CUM(l,t)  ((t) == 0 ? (l)->c[0] : (t) == 1 ? CUM1(l) : (t) == 2 ? CUM2(l) : (t) == 3 ? CUM3(l) : (t) == 4 ? CUM4(l) : SIZE(l))
#define START(l,t) ((t) == 0 ? 0 : CUM(l,(t)-1))
typedef struct { QList_H m_handlers; } SortedPipeline;

/* model: x->type() for the element at index i; dereferencing outside [0,n) is UB */
int type_at(const QList_H *l, int i)
__CPROVER_requires(0 <= i && i < SIZE(l))
__CPROVER_assigns()
__CPROVER_ensures(T_Attr <= __CPROVER_return_value && __CPROVER_return_value < NT
                  && START(l, __CPROVER_return_value) <= i && i < CUM(l, __CPROVER_return_value));
/* model: QList::insert(iterator, value). Obligations = the property: stays sorted, stable */
void QList_insert(QList_H *l, int p, int t)
__CPROVER_requires(0 <= p && p <= SIZE(l))
__CPROVER_requires(START(l, t) <= p && p <= CUM(l, t))     /* Inv17: sorted by class */
__CPROVER_requires(p == CUM(l, t))                          /* Inv17: after every handler of its own class */
__CPROVER_assigns(l->c[t])
__CPROVER_ensures(l->c[t] == __CPROVER_old(l->c[t]) + 1);

int g_q; int g_q_type; int g_ret_type;   /* ghost witness index and its class; class of the returned element */
/* generated from std::find_if(first,last,lambda): lambda = set.contains(x->type()) */
int find_if_set(const QList_H *l, int first, int last, unsigned set)
__CPROVER_requires(0 <= first && first <= last && last <= SIZE(l))
__CPROVER_requires((0 <= g_q && g_q < SIZE(l)) ==> (T_Attr <= g_q_type && g_q_type < NT && START(l, g_q_type) <= g_q && g_q < CUM(l, g_q_type)))      /* [first,last) must be a valid range */
__CPROVER_assigns(g_ret_type)
__CPROVER_ensures(first <= __CPROVER_return_value && __CPROVER_return_value <= last && T_Attr <= g_ret_type && g_ret_type < NT)
__CPROVER_ensures(__CPROVER_return_value < last ==> CUM(l, T_Handler) <= __CPROVER_return_value)   /* placeholder, refined below */
__CPROVER_ensures(__CPROVER_return_value < last ==> ((set >> g_ret_type) & 1u) && START(l, g_ret_type) <= __CPROVER_return_value && __CPROVER_return_value < CUM(l, g_ret_type))
__CPROVER_ensures((first <= g_q && g_q < __CPROVER_return_value) ==> !((set >> g_q_type) & 1u))
;

/* hand-lowered real code */
void SortedPipeline_insertBetweenNearLeft(SortedPipeline *self, unsigned leftType, unsigned rightType, int handlerType)
{
    int firstRight = find_if_set(&self->m_handlers, 0, SIZE(&self->m_handlers), rightType);
    int lastLeft = find_if_set(&self->m_handlers, firstRight, 0, leftType);
    QList_insert(&self->m_handlers, lastLeft, handlerType);
}
void SortedPipeline_appendAttrHandler(SortedPipeline *self)
__CPROVER_requires(__CPROVER_is_fresh(self, sizeof(*self)) && WF(&self->m_handlers))
__CPROVER_assigns(self->m_handlers.c[T_Attr])
__CPROVER_ensures(self->m_handlers.c[T_Attr] == __CPROVER_old(self->m_handlers.c[T_Attr]) + 1)
{
    SortedPipeline_insertBetweenNearLeft(self, 1u << T_Attr, (1u << T_Filter) | (1u << T_Formatter) | (1u << T_Sink), T_Attr);
}
void harness(void) { SortedPipeline *p; SortedPipeline_appendAttrHandler(p); }

#define GREATER(t) ((~0u << ((t) + 1)) & ((1u << NT) - 1))
void SortedPipeline_appendAttrHandler_fixed(SortedPipeline *self)
__CPROVER_requires(__CPROVER_is_fresh(self, sizeof(*self)) && WF(&self->m_handlers))
__CPROVER_requires(g_q == CUM(&self->m_handlers, T_Attr) && ((0 <= g_q && g_q < SIZE(&self->m_handlers)) ==> (T_Attr <= g_q_type && g_q_type < NT && START(&self->m_handlers, g_q_type) <= g_q && g_q < CUM(&self->m_handlers, g_q_type))))
__CPROVER_assigns(self->m_handlers.c[T_Attr], g_ret_type)
__CPROVER_ensures(self->m_handlers.c[T_Attr] == __CPROVER_old(self->m_handlers.c[T_Attr]) + 1)
{
    int pos = find_if_set(&self->m_handlers, 0, SIZE(&self->m_handlers), GREATER(T_Attr));
    QList_insert(&self->m_handlers, pos, T_Attr);
}
void harness2(void) { SortedPipeline *p; SortedPipeline_appendAttrHandler_fixed(p); }
