#include <QCoreApplication>
#include <QDebug>
#include "qtlogger.h"
int main(int argc,char**argv){
  QCoreApplication app(argc,argv);
  QString mode = argc>1? argv[1] : "fatal";
  if (mode=="fatal") {
    gQtLogger.configure("/tmp/probe/asan/f.log", 0, 0, QtLogger::RotatingFileSink::None, false);
    qInfo() << "one"; qInfo() << "two";
    qFatal("boom");
  } else if (mode=="zwsp") {
    QtLogger::PatternFormatter f("[%{message}]");
    QMessageLogContext ctx("f.cpp",1,"fn","cat");
    QtLogger::LogMessage m(QtDebugMsg, ctx, QString::fromUtf8("a​b"));
    QString out = f.format(m);
    printf("len in=%d out=%d\n", 3+2, out.size());
    QtLogger::PatternFormatter g("%{message}X%{opt?,1}YZ");
    printf("%s\n", g.format(QtLogger::LogMessage(QtDebugMsg, ctx, QString::fromUtf8("m​"))).toUtf8().toHex().constData());
  }
  return 0;
}
