#include "/repo/qtlogger.h"
#include <cstdio>
using namespace QtLogger;
struct A : AttrHandler { QVariantHash attributes(const LogMessage&) override { return {}; } };
struct F : Filter { bool filter(const LogMessage&) override { return true; } };
struct S : Sink { void send(const LogMessage&) override {} };
int main(int argc,char**argv){
  SortedPipeline p;
  p.appendAttrHandler(QSharedPointer<A>::create());
  p.appendFilter(QSharedPointer<F>::create());   // list=[Attr]; firstRight=end; find_if(end, begin)
  p.appendSink(QSharedPointer<S>::create());
  p.appendAttrHandler(QSharedPointer<A>::create());
  const SortedPipeline &cp = p; for (auto &h : cp.handlers()) printf("%d ", (int)h->type());
  printf("\n");
}
