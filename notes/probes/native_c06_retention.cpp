#include <QCoreApplication>
#include <QDebug>
#include <QDir>
#include "qtlogger.h"
using namespace QtLogger;
int main(int argc,char**argv){
  QCoreApplication app(argc,argv);
  QDir("/tmp/probe/asan/rot").removeRecursively(); QDir().mkpath("/tmp/probe/asan/rot");
  int maxCount = argc>1? atoi(argv[1]) : 4;
  RotatingFileSink s("/tmp/probe/asan/rot/app.log", 20, maxCount, RotatingFileSink::None);
  QMessageLogContext ctx("f.cpp",1,"fn","cat");
  for (int i=0;i<14;i++) { LogMessage m(QtDebugMsg, ctx, QString("record-%1-xxxxxxxx").arg(i,2,10,QChar('0'))); s.send(m); s.flush(); }
  for (auto &e : QDir("/tmp/probe/asan/rot").entryInfoList(QDir::Files, QDir::Name)) { QFile f(e.filePath()); f.open(QIODevice::ReadOnly); printf("%s mtime=%lld : %s", qPrintable(e.fileName()), e.lastModified().toMSecsSinceEpoch(), f.readAll().constData()); }
}
