#include <stdbool.h>
#include <stddef.h>
/* ---- models (ident profile), hand-written for the probe ---- */
typedef struct { int isnull; int id; } QString;
typedef struct { int id; } QVariantHash;
typedef struct { QString m_message; QString m_formattedMessage; QVariantHash m_attributes; } LogMessage;
typedef struct Handler Handler;
typedef struct { Handler *p; } HandlerPtr;
typedef struct { int n; } QList_HandlerPtr;
typedef struct { QList_HandlerPtr *l; int i; } QList_HandlerPtr_iterator;
typedef struct { QList_HandlerPtr m_handlers; int m_scoped; } Pipeline;
static inline QString QString_ctor_default(void) { return (QString){1, 0}; }
static inline QVariantHash QVariantHash_ctor_default(void) { return (QVariantHash){0}; }
static inline QList_HandlerPtr_iterator QList_HandlerPtr_begin(QList_HandlerPtr *l) { return (QList_HandlerPtr_iterator){l, 0}; }
static inline QList_HandlerPtr_iterator QList_HandlerPtr_end(QList_HandlerPtr *l) { return (QList_HandlerPtr_iterator){l, l->n}; }
/* ghost */
int g_at_index; Handler *g_at_value; int g_last_idx; int g_rejected; int g_reject_idx; int g_k; int g_called_k;
QString g_fm; QVariantHash g_attrs; Handler *g_elem_k; HandlerPtr g_cell;
#define SAME_STATE(m) ((m)->m_formattedMessage.isnull == g_fm.isnull && (m)->m_formattedMessage.id == g_fm.id && (m)->m_attributes.id == g_attrs.id)
#define NORM(m) ((m)->m_formattedMessage.isnull == 0 || (m)->m_formattedMessage.isnull == 1)
HandlerPtr *QList_HandlerPtr_iterator_deref(QList_HandlerPtr_iterator it)
__CPROVER_requires(0 <= it.i && it.i < it.l->n)            /* dereferencing end() is UB */
__CPROVER_assigns(g_at_index, g_at_value, g_cell)
__CPROVER_ensures(g_at_index == it.i && g_at_value == g_cell.p && __CPROVER_return_value == &g_cell && (it.i == g_k ==> g_cell.p == g_elem_k));
bool Handler_process(Handler *h, LogMessage *lmsg)
__CPROVER_requires(h != NULL && h == g_at_value)
__CPROVER_requires(g_at_index > g_last_idx)
__CPROVER_requires(!g_rejected)
__CPROVER_requires(SAME_STATE(lmsg))
__CPROVER_assigns(lmsg->m_formattedMessage, lmsg->m_attributes, g_last_idx, g_rejected, g_reject_idx, g_called_k, g_fm, g_attrs)
__CPROVER_ensures(g_last_idx == g_at_index)
__CPROVER_ensures((g_rejected == 0 || g_rejected == 1) && g_rejected == !__CPROVER_return_value)
__CPROVER_ensures(g_rejected ==> g_reject_idx == g_at_index)
__CPROVER_ensures((g_called_k == 0 || g_called_k == 1) && g_called_k == (__CPROVER_old(g_called_k) || g_at_index == g_k))
__CPROVER_ensures(SAME_STATE(lmsg) && NORM(lmsg));
/* LogMessage accessors: in the real machinery these are lowered from logmessage.h too */
bool LogMessage_isFormatted(const LogMessage *m) { return !m->m_formattedMessage.isnull; }
QString LogMessage_formattedMessage(const LogMessage *m) { return LogMessage_isFormatted(m) ? m->m_formattedMessage : m->m_message; }
QVariantHash LogMessage_attributes(const LogMessage *m) { return m->m_attributes; }
void LogMessage_setFormattedMessage(LogMessage *m, QString s) { m->m_formattedMessage = s; }
void LogMessage_setAttributes(LogMessage *m, QVariantHash a) { m->m_attributes = a; }

/* ---- sidecar: contract of the real function, from the property statement ---- */
bool Pipeline_process(Pipeline *self, LogMessage *lmsg)
__CPROVER_requires(__CPROVER_is_fresh(self, sizeof(*self)) && __CPROVER_is_fresh(lmsg, sizeof(*lmsg)))
__CPROVER_requires(0 <= self->m_handlers.n)
__CPROVER_requires((self->m_scoped == 0 || self->m_scoped == 1) && NORM(lmsg))
__CPROVER_requires(g_last_idx == -1 && !g_rejected && !g_called_k && 0 <= g_k && g_k < self->m_handlers.n && SAME_STATE(lmsg))
__CPROVER_assigns(lmsg->m_formattedMessage, lmsg->m_attributes, g_last_idx, g_rejected, g_reject_idx, g_called_k, g_fm, g_attrs, g_at_index, g_at_value, g_cell)
__CPROVER_ensures(__CPROVER_return_value == true)                                         /* never stops its parent */
__CPROVER_ensures(self->m_scoped ==> (lmsg->m_formattedMessage.isnull == __CPROVER_old(lmsg->m_formattedMessage.isnull)
     && (lmsg->m_formattedMessage.isnull || lmsg->m_formattedMessage.id == __CPROVER_old(lmsg->m_formattedMessage.id))
     && lmsg->m_attributes.id == __CPROVER_old(lmsg->m_attributes.id)))                   /* scoped: effects invisible afterwards */
__CPROVER_ensures(!self->m_scoped ==> SAME_STATE(lmsg))                                   /* unscoped: effects persist */
__CPROVER_ensures((g_elem_k != NULL && !(g_rejected && g_reject_idx < g_k)) ==> g_called_k);
#define LOOP_CONTRACT_0 \
  __CPROVER_assigns(__begin1.i, lmsg->m_formattedMessage, lmsg->m_attributes, g_last_idx, g_rejected, g_reject_idx, g_called_k, g_fm, g_attrs, g_at_index, g_at_value, g_cell) \
  __CPROVER_loop_invariant(0 <= __begin1.i && __begin1.i <= __end1.i && __end1.i == self->m_handlers.n && __begin1.l == &self->m_handlers) \
  __CPROVER_loop_invariant(g_last_idx < __begin1.i && !g_rejected && NORM(lmsg) && SAME_STATE(lmsg)) \
  __CPROVER_loop_invariant((__begin1.i > g_k && g_elem_k != NULL) ==> g_called_k) \
  __CPROVER_decreases(__end1.i - __begin1.i)
#include "lowered.c"
void harness(void) { Pipeline *p; LogMessage *m; Pipeline_process(p, m); }
