#include <QCoreApplication>
#include <QDebug>
#include <QThread>
#include "qtlogger.h"
int main(int argc,char**argv){
  {
  QCoreApplication app(argc,argv);
  gQtLogger.moveToOwnThread();
  gQtLogger.handler([](QtLogger::LogMessage&){ QThread::msleep(2); return true; });
  gQtLogger.sendToFile("/tmp/probe/asan/a.log");
  gQtLogger.installMessageHandler();
  for (int i=0;i<200;i++) qInfo() << "msg" << i;
  }
  fprintf(stderr,"app gone\n");
  return 0;
}
