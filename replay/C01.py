"""C01 native replay: seeded random pipeline TREES (nesting, scoped/unscoped, attribute handlers, filters, formatters, sinks, generic
handlers, null entries, handlers shared between pipelines) run on the real Pipeline/SimplePipeline classes; what every sink saw
(formatted text, attributes) is compared with an independent in-order interpreter of the tree written from the property statement.
Bounded: proves nothing."""
import os, sys
sys.path.insert(0, os.path.dirname(os.path.abspath(__file__)))
import common
DRIVER = r'''
#include <QtCore>
#include <cstdio>
#include <vector>
#include <memory>
#include "pipeline.h"
#include "attrhandler.h"
#include "filter.h"
#include "formatter.h"
#include "sink.h"
#include "functionhandler.h"
#include "logmessage.h"
using namespace QtLogger;
static unsigned long long st; static unsigned rnd(unsigned n) { st = st * 6364136223846793005ULL + 1442695040888963407ULL; return (unsigned)((st >> 33) % n); }
struct Seen { int sink; QString text; QVariantHash attrs; };
static std::vector<Seen> realSeen, refSeen;
// ---- the abstract tree
struct Node { int kind; int id; bool scoped = false; bool verdict = true; QString key, val; std::vector<int> kids; };   // kind 0 pipeline 1 attr 2 filter 3 formatter 4 sink 5 generic 6 null
static std::vector<Node> nodes;
// ---- real handlers
struct RAttr : AttrHandler { Node *n; QVariantHash attributes(const LogMessage &) override { return QVariantHash{{n->key, n->val}}; } };
struct RFilter : Filter { Node *n; bool filter(const LogMessage &) override { return n->verdict; } };
struct RFormatter : Formatter { Node *n; QString format(const LogMessage &m) override { if (n->id % 4 == 0) return QString(""); return n->val + "(" + m.formattedMessage() + ")"; } };   // sees the latest text; some format to the EMPTY (non-null) string
struct RSink : Sink { Node *n; void send(const LogMessage &m) override { realSeen.push_back({n->id, m.formattedMessage(), m.attributes()}); } };
struct RGeneric : Handler { Node *n; bool process(LogMessage &m) override { m.setAttribute(n->key, n->val); return n->verdict; } };
static std::vector<HandlerPtr> real;
static HandlerPtr build(int i) {
    if (real[i]) return real[i];
    Node &n = nodes[i]; HandlerPtr h;
    switch (n.kind) {
    case 0: { auto p = QSharedPointer<Pipeline>::create(n.scoped); for (int k : n.kids) { if (nodes[k].kind == 6) p->append(HandlerPtr()); else p->append(build(k)); } h = p; break; }
    case 1: { auto a = QSharedPointer<RAttr>::create(); a->n = &n; h = a; break; }
    case 2: { auto a = QSharedPointer<RFilter>::create(); a->n = &n; h = a; break; }
    case 3: { auto a = QSharedPointer<RFormatter>::create(); a->n = &n; h = a; break; }
    case 4: { auto a = QSharedPointer<RSink>::create(); a->n = &n; h = a; break; }
    case 5: { auto a = QSharedPointer<RGeneric>::create(); a->n = &n; h = a; break; }
    }
    real[i] = h; return h;
}
// ---- reference: in-order evaluation, written from the property statement
struct Msg { QString raw; bool formatted = false; QString text; QVariantHash attrs; };
static bool evalNode(int i, Msg &m);
static bool evalPipeline(const Node &p, Msg &m) {
    Msg saved = m;
    for (int k : p.kids) { if (nodes[k].kind == 6) continue; if (!evalNode(k, m)) break; }      // a rejecting handler skips the rest of ITS pipeline only
    if (p.scoped) { m.formatted = saved.formatted; m.text = saved.text; m.attrs = saved.attrs; }     // scoped: nothing set inside survives
    return true;                                                                                 // a nested pipeline never stops its parent
}
static bool evalNode(int i, Msg &m) {
    const Node &n = nodes[i];
    switch (n.kind) {
    case 0: return evalPipeline(n, m);
    case 1: m.attrs.insert(n.key, n.val); return true;
    case 2: return n.verdict;
    case 3: m.text = (n.id % 4 == 0) ? QString("") : n.val + "(" + (m.formatted ? m.text : m.raw) + ")"; m.formatted = true; return true;
    case 4: refSeen.push_back({n.id, m.formatted ? m.text : m.raw, m.attrs}); return true;
    case 5: m.attrs.insert(n.key, n.val); return n.verdict;
    }
    return true;
}
static QString show(const std::vector<Seen> &v) { QStringList l; for (auto &s : v) { QStringList a; for (auto it = s.attrs.cbegin(); it != s.attrs.cend(); ++it) a << it.key() + "=" + it.value().toString(); a.sort();
    l << QString("sink%1:'%2'{%3}").arg(s.sink).arg(s.text).arg(a.join(",")); } return l.join(" "); }
static QString showTree(int i) { const Node &n = nodes[i]; const char *k[] = {"P", "attr", "filter", "fmt", "sink", "generic", "null"}; QString s = QString("%1#%2").arg(k[n.kind]).arg(n.id);
    if (n.kind == 0) { s += n.scoped ? "[scoped](" : "[unscoped]("; for (int c : n.kids) s += showTree(c) + " "; s += ")"; } else if (n.kind == 2 || n.kind == 5) s += n.verdict ? ":pass" : ":reject"; return s; }
int main(int argc, char **argv) {
    unsigned long long seed = strtoull(argv[1], 0, 10); int runs = atoi(argv[2]); int bad = 0;
    for (int run = 0; run < runs; ++run) {
        st = seed * 15485863ULL + run; nodes.clear(); real.clear();
        int total = 3 + rnd(14); nodes.reserve(64);
        nodes.push_back(Node{0, 0, rnd(2) == 0});                        // root pipeline
        std::vector<int> pipes = {0};
        for (int i = 1; i < total; ++i) {
            Node n; n.id = i; unsigned k = rnd(12);
            n.kind = k < 3 ? 0 : k < 5 ? 1 : k < 7 ? 2 : k < 9 ? 3 : k < 10 ? 5 : k < 11 ? 6 : 4; if (k >= 11 || rnd(4) == 0) n.kind = (n.kind == 0 || n.kind == 6) ? n.kind : 4;
            n.scoped = rnd(2); n.verdict = rnd(3) != 0; n.key = QString("k%1").arg(rnd(3)); n.val = QString("v%1").arg(i);
            int parent = pipes[rnd(pipes.size())]; nodes.push_back(n); nodes[parent].kids.push_back(i);
            if (n.kind == 0) pipes.push_back(i);
            if (n.kind != 0 && n.kind != 6 && rnd(5) == 0) { int p2 = pipes[rnd(pipes.size())]; nodes[p2].kids.push_back(i); }   // shared handler (never a pipeline: no cycles)
        }
        real.assign(nodes.size(), HandlerPtr());
        HandlerPtr root = build(0);
        for (int mi = 0; mi < 3; ++mi) {
            realSeen.clear(); refSeen.clear();
            QMessageLogContext ctx("f.cpp", 1, "fn", "cat"); LogMessage lm(QtInfoMsg, ctx, QString("m%1").arg(mi));
            Msg m; m.raw = lm.message();
            if (mi == 2) { lm.setFormattedMessage("pre"); lm.setAttribute("k0", "pre"); m.formatted = true; m.text = "pre"; m.attrs.insert("k0", "pre"); }     // already formatted / attributed on entry
            root->process(lm); evalNode(0, m);
            bool same = realSeen.size() == refSeen.size();
            for (size_t i = 0; same && i < realSeen.size(); ++i) same = realSeen[i].sink == refSeen[i].sink && realSeen[i].text == refSeen[i].text && realSeen[i].attrs == refSeen[i].attrs;
            const QString after = lm.formattedMessage(), afterRef = m.formatted ? m.text : m.raw;
            if (same && (after != afterRef || lm.attributes() != m.attrs)) { same = false; }
            if (!same) { if (bad++ < 3) printf("FAILING INPUT: tree %s message %d\n   sinks saw:        %s | message afterwards '%s'\n   in-order predicts: %s | message afterwards '%s'\n",
                                               qPrintable(showTree(0)), mi, qPrintable(show(realSeen)), qPrintable(after), qPrintable(show(refSeen)), qPrintable(afterRef)); }
        }
    }
    printf("%d random trees x 3 messages, %d mismatch(es)\n", runs, bad); return bad ? 1 : 0;
}
'''
def replay(rec, workdir):
    try: exe = common.build_driver(workdir, 'c01_trees', DRIVER)
    except Exception as e: return False, 'replay build failed: %s' % e
    seed = os.environ.get('VERIF_SEED', '1'); runs = '20000' if os.environ.get('VERIF_TIER') == 'thorough' else '4000'
    rc, out = common.run(exe, [seed, runs], timeout=600)
    return rc == 1, 'native replay (random handler trees against an in-order reference interpreter, seed %s; bounded, proves nothing):\n%s' % (seed, out[-2500:])
if __name__ == '__main__':
    print(replay({}, '/tmp/c01_replay_dev')[1])
