"""C15 native replay: seeded random rule lists x categories x message types on the real CategoryFilter against an independent
reference (ordered evaluation, '*' wildcards matched by a hand-written glob matcher, typed/untyped rules, garbage lines ignored)."""
import os, sys
sys.path.insert(0, os.path.dirname(os.path.abspath(__file__)))
import common
DRIVER = r'''
#include <QtCore>
#include <cstdio>
#include <vector>
#include "filters/categoryfilter.h"
#include "logmessage.h"
using namespace QtLogger;
static unsigned long long st; static unsigned rnd(unsigned n) { st = st * 6364136223846793005ULL + 1442695040888963407ULL; return (unsigned)((st >> 33) % n); }
static bool glob(const QString &p, int i, const QString &s, int j) {            // '*' matches any run of characters; everything else is literal
    if (i == p.size()) return j == s.size();
    if (p[i] == '*') { for (int k = j; k <= s.size(); ++k) if (glob(p, i + 1, s, k)) return true; return false; }
    return j < s.size() && p[i] == s[j] && glob(p, i + 1, s, j + 1); }
struct R { QString pat; int type; bool en; };   // type -1: untyped
int main(int argc, char **argv) {
    unsigned long long seed = strtoull(argv[1], 0, 10); int runs = atoi(argv[2]); int checks = 0, bad = 0;
    const char *pats[] = {"app", "app.*", "*", "app.core", "*.io", "a*c", "*pp*", "plugin[1]", "app.what?", "a+b", "x(y)", "app.io/file", "qml/js", "a.b", "a|b", "net.*.tcp", "*.debug", "$x^", "app.Debug", "*.WARNING"};
    const char *cats[] = {"app", "app.core", "app.io", "app.io/file", "qml/js", "plugin[1]", "plugin1", "app.whatX", "app.what?", "a+b", "aab", "x(y)", "abc", "ac", "a.b", "axb", "a|b", "a", "net.x.tcp", "default", "", "app.debug", "$x^", "app.Debug", "app"};
    const char *tnames[] = {"debug", "info", "warning", "critical"}; QtMsgType tv[] = {QtDebugMsg, QtInfoMsg, QtWarningMsg, QtCriticalMsg};
    for (int run = 0; run < runs; ++run) {
        st = seed * 7919ULL + run; std::vector<R> rules; QString text; int n = 1 + rnd(6);
        for (int k = 0; k < n; ++k) {
            if (rnd(6) == 0) { const char *junk[] = {"garbage line", "=true", "app=maybe", "app.core = ", "# comment", "app.info.debug=true=false", "app=True", "*=FALSE", "app.core=False"}; text += junk[rnd(9)]; }   // keywords are lower-case: other spellings are malformed lines
            else { R r; r.pat = pats[rnd(sizeof pats / sizeof *pats)]; r.type = rnd(3) ? -1 : (int)rnd(4); r.en = rnd(2);
                   if (rnd(5) == 0 && !rules.empty()) { r.pat = rules[rnd(rules.size())].pat; }          // re-stated rule
                   QString line = r.pat + (r.type >= 0 ? QString(".") + tnames[r.type] : QString()) + (rnd(3) ? "=" : " = ") + (r.en ? "true" : "false");
                   if (rnd(4) == 0) line = "  " + line + " "; text += line; rules.push_back(r); }
            text += rnd(2) ? ";" : "\n";
        }
        // a typed-looking pattern such as "*.debug" is parsed by the grammar as pattern "*" + type debug: mirror the documented grammar (non-greedy category, optional suffix)
        for (auto &r : rules) if (r.type < 0) for (int t = 0; t < 4; ++t) if (r.pat.endsWith(QString(".") + tnames[t])) { r.type = t; r.pat.chop(strlen(tnames[t]) + 1); break; }
        CategoryFilter f(text);
        for (const char *c : cats) for (int t = 0; t < 4; ++t) {
            bool want = true; for (auto &r : rules) if (!r.pat.isEmpty() && glob(r.pat, 0, QString(c), 0) && (r.type < 0 || r.type == t)) want = r.en;
            QMessageLogContext ctx("f", 1, "fn", c); LogMessage m(tv[t], ctx, "x"); bool got = f.filter(m); ++checks;
            if (got != want) { if (bad++ < 3) printf("FAILING INPUT: rules=\"%s\" category=\"%s\" type=%s: filter says %s, ordered rule evaluation says %s\n", qPrintable(QString(text).replace("\n", "\\n")), c, tnames[t], got ? "pass" : "drop", want ? "pass" : "drop"); }
        }
    }
    printf("%d checks, %d mismatches\n", checks, bad); return bad ? 1 : 0;
}
'''
def replay(rec, workdir):
    seed = int(os.environ.get('VERIF_SEED', '0') or 0) + 1
    try: exe = common.build_driver(workdir, 'c15_rules', DRIVER)
    except Exception as e: return False, 'replay build failed: %s' % e
    rc, out = common.run(exe, [str(seed), '400'], timeout=300)
    return rc == 1, 'native replay (400 seeded random rule lists (incl. upper-case keyword spellings, which are malformed lines) x 25 categories x 4 types against an independent reference; bounded, proves nothing):\n' + out[-2500:]
