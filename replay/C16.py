"""C16 native replay: seeded random message sequences through the real LevelFilter / DuplicateFilter / RegExpFilter / SeqNumberAttr,
compared with a reference written from the property statement (severity order, run collapsing from the empty text, consecutive numbers).
Bounded: proves nothing."""
import os, sys
sys.path.insert(0, os.path.dirname(os.path.abspath(__file__)))
import common
DRIVER = r'''
#include <QtCore>
#include <cstdio>
#include "filters/levelfilter.h"
#include "filters/duplicatefilter.h"
#include "filters/regexpfilter.h"
#include "attrhandlers/seqnumberattr.h"
#include "logmessage.h"
using namespace QtLogger;
static unsigned long long st; static unsigned rnd(unsigned n) { st = st * 6364136223846793005ULL + 1442695040888963407ULL; return (unsigned)((st >> 33) % n); }
static int rank(QtMsgType t) { switch (t) { case QtDebugMsg: return 0; case QtInfoMsg: return 1; case QtWarningMsg: return 2; case QtCriticalMsg: return 3; case QtFatalMsg: return 4; } return -1; }
int main(int argc, char **argv) {
    unsigned long long seed = strtoull(argv[1], 0, 10); int runs = atoi(argv[2]); int bad = 0; long checks = 0;
    QtMsgType types[] = {QtDebugMsg, QtInfoMsg, QtWarningMsg, QtCriticalMsg, QtFatalMsg};
    QStringList texts = {"", QString(), "a", "A", "a ", " a", "b", QString::fromUtf8("\xc3\xa9"), QString::fromUtf8("e\xcc\x81"), "line\n", "ab", "abc"};
    const char *res[] = {"a", "^a$", "b|c", "", "\\s", "^$", "[A-Z]", "a+b"};
    // level filter: full domain
    for (QtMsgType thr : types) for (QtMsgType t : types) { LevelFilter f(thr); QMessageLogContext ctx("f", 1, "fn", "c"); LogMessage m(t, ctx, "x"); ++checks;
        if (f.filter(m) != (rank(t) >= rank(thr))) { if (bad++ < 3) printf("FAILING INPUT: LevelFilter(threshold rank %d) on a message of rank %d says %d\n", rank(thr), rank(t), (int)f.filter(m)); } }
    for (int run = 0; run < runs; ++run) {
        st = seed * 32452843ULL + run;
        DuplicateFilter dup; SeqNumberAttr seq(rnd(2) ? QString("seq_number") : QString("n")); QString key = seq.attributes(LogMessage(QtInfoMsg, QMessageLogContext("f", 1, "fn", "c"), "probe")).constBegin().key();
        RegExpFilter re(QString::fromLatin1(res[rnd(8)])); QRegularExpression rx(QString::fromLatin1(res[(st, 0)])); (void)rx;
        QString last = QString("");                          // the duplicate filter starts from the empty text
        bool haveNum = false; long long prevNum = 0; QString hist;
        // the probe call above consumed one number: take the next call as the start
        int n = 2 + rnd(20);
        for (int i = 0; i < n; ++i) {
            QString text = texts[rnd(texts.size())]; if (rnd(3) == 0 && i) text = last;      // runs
            QMessageLogContext ctx("f", 1, "fn", "c"); LogMessage m(types[rnd(5)], ctx, text); hist += "'" + text.toUtf8().toPercentEncoding(" ") + "' ";
            bool got = dup.filter(m), want = !(text == last); last = text; ++checks;       // (Qt: a null text equals an empty text)
            if (got != want) { if (bad++ < 3) printf("FAILING INPUT: DuplicateFilter on the sequence %s: message %d %s, run collapsing says %s\n", qPrintable(hist), i, got ? "passed" : "dropped", want ? "pass" : "drop"); }
            if (rnd(4) == 0) m.setAttribute(key, 999);      // the message already carries an attribute of the handler's name (shared handler, re-injected message)
            QVariantHash a = seq.attributes(m); ++checks;
            if (a.size() != 1 || !a.contains(key)) { if (bad++ < 3) printf("FAILING INPUT: SeqNumberAttr returned %d attributes / not under its name\n", a.size()); }
            else { long long v = a.value(key).toLongLong(); if (haveNum && v != prevNum + 1) { if (bad++ < 3) printf("FAILING INPUT: SeqNumberAttr: message %d got number %lld after %lld\n", i, v, prevNum); } prevNum = v; haveNum = true; }
        }
    }
    // texts that differ but agree in length and 32-bit qHash (found by a birthday search): still different texts
    { QHash<uint, QString> byHash; int pairs = 0;
      for (int i = 0; i < 400000 && pairs < 3; ++i) { QString t = QString("t%1").arg(i, 8, 36, QChar('0')); uint h = qHash(t); auto it = byHash.constFind(h);
          if (it != byHash.constEnd() && it.value() != t) { ++pairs; DuplicateFilter d; QMessageLogContext ctx("f", 1, "fn", "c"); LogMessage a(QtInfoMsg, ctx, it.value()), b(QtInfoMsg, ctx, t); ++checks;
              bool pa = d.filter(a), pb = d.filter(b), pa2 = d.filter(a);
              if (!pa || !pb || !pa2) { if (bad++ < 3) printf("FAILING INPUT: DuplicateFilter on '%s', '%s', '%s' (different texts, same length and qHash): passed=%d,%d,%d, all three must pass\n", qPrintable(it.value()), qPrintable(t), qPrintable(it.value()), pa, pb, pa2); } }
          else byHash.insert(h, t); } }
    // regular-expression filter against QRegularExpression itself
    for (const char *r : res) for (const QString &t : texts) { RegExpFilter f(QString::fromLatin1(r)); QMessageLogContext ctx("f", 1, "fn", "c"); LogMessage m(QtInfoMsg, ctx, t); ++checks;
        bool want = QRegularExpression(QString::fromLatin1(r)).match(t).hasMatch(); if (f.filter(m) != want) { if (bad++ < 3) printf("FAILING INPUT: RegExpFilter('%s') on '%s' says %d\n", r, qPrintable(t), (int)f.filter(m)); } }
    printf("%ld checks, %d mismatch(es)\n", checks, bad); return bad ? 1 : 0;
}
'''
def replay(rec, workdir):
    try: exe = common.build_driver(workdir, 'c16_seq', DRIVER)
    except Exception as e: return False, 'replay build failed: %s' % e
    seed = os.environ.get('VERIF_SEED', '1'); runs = '20000' if os.environ.get('VERIF_TIER') == 'thorough' else '3000'
    rc, out = common.run(exe, [seed, runs], timeout=600)
    return rc == 1, 'native replay (random message sequences against a reference from the property statement, seed %s; bounded, proves nothing):\n%s' % (seed, out[-2500:])
if __name__ == '__main__':
    print(replay({}, '/tmp/c16_replay_dev')[1])
