"""C11 native replay: a child process logs N messages through a SYNCHRONOUS logger with file sinks and then raises a fatal
message (Qt aborts); the parent reads the files.  Plain and rotating sinks, one-line and fluent configuration, message
counts below and above the stream buffer size, fatal from the main and from a worker thread."""
import os, shutil, sys, tempfile
sys.path.insert(0, os.path.dirname(os.path.abspath(__file__)))
import common

DRIVER = r'''
#include <QtCore>
#include <cstdio>
#include <csignal>
#include <sys/wait.h>
#include <unistd.h>
#include <thread>
#include "logger.h"
#include "sinks/filesink.h"
#include "sinks/rotatingfilesink.h"
using namespace QtLogger;
static int child(const QString &path, int variant, int n, bool fromThread) {
    int argc = 1; char a0[] = "c11"; char *argv[] = {a0, nullptr}; QCoreApplication app(argc, argv);
    Logger *lg = Logger::instance();
    switch (variant) {
    case 0: lg->configure(path, 0, 0, RotatingFileSink::None, false); break;                       // one-line: plain file sink
    case 1: lg->configure(path, 8 * 1024 * 1024, 3, RotatingFileSink::None, false); break;         // one-line: rotating sink
    case 2: *lg << FileSinkPtr::create(path); lg->installMessageHandler(); break;                   // fluent, plain
    case 3: *lg << RotatingFileSinkPtr::create(path, 0, 0, RotatingFileSink::RotationDaily); lg->installMessageHandler(); break;
    case 4: { auto p = PipelinePtr::create(); p->append(FileSinkPtr::create(path)); *lg << p; lg->installMessageHandler(); break; }   // sink inside a nested pipeline
    }
    auto body = [&]() { for (int i = 0; i < n; ++i) qInfo("record %d %s", i, "xxxxxxxxxxxxxxxxxxxxxxxxxxxxxxxxxxxxxxxxxxxxxxxxxxxxxxxxxxxxxxxx"); qFatal("FATAL-END"); };
    if (fromThread) { std::thread t(body); t.join(); } else body();
    return 0;
}
int main(int argc, char **argv) {
    QString root = argv[1]; int bad = 0, cases = 0;
    for (int variant = 0; variant < 5; ++variant) for (int n : {0, 5, 600}) for (int th = 0; th < 2; ++th) {
        QString path = root + QString("/v%1_n%2_t%3.log").arg(variant).arg(n).arg(th);
        pid_t pid = fork();
        if (pid == 0) { fclose(stderr); signal(SIGABRT, SIG_DFL); _exit(child(path, variant, n, th)); }
        int st; waitpid(pid, &st, 0); ++cases;
        QFile f(path); f.open(QIODevice::ReadOnly); QByteArray c = f.readAll();
        int have = 0; for (int i = 0; i < n; ++i) if (c.contains(QString("record %1 ").arg(i).toLatin1())) ++have;
        bool fatal = c.contains("FATAL-END");
        if (have != n || !fatal) { ++bad; printf("FAILING INPUT: variant=%d (0 one-line plain,1 one-line rotating,2 fluent plain,3 fluent rotating,4 nested pipeline) messages-before=%d fatal-from-%s: file has %d of %d earlier records, fatal record %s (child %s)\n",
               variant, n, th ? "worker-thread" : "main-thread", have, n, fatal ? "present" : "MISSING", WIFSIGNALED(st) ? "aborted" : "exited"); }
    }
    printf("%d of %d cases lost records\n", bad, cases);
    return bad ? 1 : 0;
}
'''

def replay(rec, workdir):
    try:
        exe = common.build_driver(workdir, 'c11_fatal', DRIVER, sanitize=False)
    except Exception as e:
        return False, 'replay build failed: %s' % e
    tmp = tempfile.mkdtemp(prefix='vf_c11_')
    try:
        rc, out = common.run(exe, [tmp], timeout=600)
    finally:
        shutil.rmtree(tmp, ignore_errors=True)
    return rc == 1, 'native replay (child process killed by its own fatal message, parent reads the log files):\n' + out[-3000:]
