import os, sys
sys.path.insert(0, os.path.dirname(os.path.abspath(__file__)))
import thread_driver
def replay(rec, workdir):
    return thread_driver.replay("C03", rec, workdir)
