"""C17 native replay: executes the property's own statement on the REAL SortedPipeline for every sequence of the
typed calls up to a stated length (bounded enumeration of the executable postcondition; seeded order)."""
import os, sys
sys.path.insert(0, os.path.dirname(os.path.abspath(__file__)))
import common

DRIVER = r'''
#include <QtCore>
#include <cstdio>
#include <vector>
#include "sortedpipeline.h"
#include "attrhandler.h"
#include "filter.h"
#include "formatter.h"
#include "sink.h"
using namespace QtLogger;
struct A : AttrHandler { QVariantHash attributes(const LogMessage &) override { return {}; } };
struct F : Filter { bool filter(const LogMessage &) override { return true; } };
struct M : Formatter { QString format(const LogMessage &) override { return QString(); } };
struct S : Sink { void send(const LogMessage &) override {} };
static const char *OPS[] = {"appendAttrHandler","appendFilter","setFormatter","appendSink","appendPipeline",
                            "clearAttrHandlers","clearFilters","clearFormatters","clearSinks","clearPipelines"};
static int rankOf(Handler::HandlerType t) {
    switch (t) { case Handler::HandlerType::AttrHandler: return 1; case Handler::HandlerType::Filter: return 2;
                 case Handler::HandlerType::Formatter: return 3; case Handler::HandlerType::Sink: return 4;
                 case Handler::HandlerType::Pipeline: return 5; default: return 0; }
}
static const char *cls(int r) { static const char *n[] = {"Handler","Attr","Filter","Formatter","Sink","Pipeline"}; return n[r]; }
int main(int argc, char **argv) {
    int maxlen = argc > 1 ? atoi(argv[1]) : 5; unsigned long long checked = 0;
    for (int len = 1; len <= maxlen; ++len) {
        std::vector<int> seq(len, 0);
        while (true) {
            SortedPipeline p; std::vector<std::vector<Handler*>> model(6);
            for (int step = 0; step < len; ++step) {
                int op = seq[step];
                switch (op) {
                case 0: { auto h = QSharedPointer<A>::create(); p.appendAttrHandler(h); model[1].push_back(h.data()); break; }
                case 1: { auto h = QSharedPointer<F>::create(); p.appendFilter(h); model[2].push_back(h.data()); break; }
                case 2: { auto h = QSharedPointer<M>::create(); p.setFormatter(h); model[3].clear(); model[3].push_back(h.data()); break; }
                case 3: { auto h = QSharedPointer<S>::create(); p.appendSink(h); model[4].push_back(h.data()); break; }
                case 4: { auto h = QSharedPointer<Pipeline>::create(); p.appendPipeline(h); model[5].push_back(h.data()); break; }
                case 5: p.clearAttrHandlers(); model[1].clear(); break;
                case 6: p.clearFilters(); model[2].clear(); break;
                case 7: p.clearFormatters(); model[3].clear(); break;
                case 8: p.clearSinks(); model[4].clear(); break;
                case 9: p.clearPipelines(); model[5].clear(); break;
                }
                // the property: attr, filter, <=1 formatter, sink, pipeline; same class keeps insertion order; nothing lost
                std::vector<Handler*> expect; for (int c = 1; c <= 5; ++c) for (auto *h : model[c]) expect.push_back(h);
                bool ok = (int)expect.size() == p.handlers().size();
                for (int i = 0; ok && i < p.handlers().size(); ++i) ok = p.handlers()[i].data() == expect[i];
                if (!ok) {
                    printf("FAILING HISTORY:");
                    for (int k = 0; k <= step; ++k) printf(" %s", OPS[seq[k]]);
                    printf("\nobserved order:");
                    for (auto &h : p.handlers()) printf(" %s", cls(rankOf(h->type())));
                    printf("\nexpected order:");
                    for (int c = 1; c <= 5; ++c) for (size_t k = 0; k < model[c].size(); ++k) printf(" %s", cls(c));
                    printf("\n(identity/stability compared as well)\n");
                    return 1;
                }
                ++checked;
            }
            int k = len - 1;
            while (k >= 0 && ++seq[k] == 10) { seq[k] = 0; --k; }
            if (k < 0) break;
        }
    }
    printf("no failing history among all call sequences of length <= %d (%llu states checked)\n", maxlen, checked);
    return 0;
}
'''

def replay(rec, workdir, maxlen=5):
    try:
        exe = common.build_driver(workdir, 'c17_enum', DRIVER, sanitize=True)
    except Exception as e:
        return False, 'replay build failed: %s' % e
    rc, out = common.run(exe, [str(maxlen)], env={'ASAN_OPTIONS': 'detect_leaks=0'})
    return rc != 0, 'bounded enumeration on the real SortedPipeline (all sequences of the 10 typed calls, length <= %d), ASan+UBSan build of the working tree:\n%s' % (maxlen, out[-3000:])
