"""Native replay for the file-system properties (C05, C06, C07, C09): executes the property's own statement on the REAL
RotatingFileSink over seeded random histories in a temporary directory, with a virtual wall clock (gettimeofday /
clock_gettime defined in the executable) and file timestamps set from that clock with a chosen granularity.
Bounded, randomised: it finds failing inputs, it proves nothing."""
import os, shutil, sys, tempfile
sys.path.insert(0, os.path.dirname(os.path.abspath(__file__)))
import common

DRIVER = r'''
#include <QtCore>
#include <cstdio>
#include <cstdlib>
#include <map>
#include <set>
#include <string>
#include <vector>
#include <sys/time.h>
#include <sys/stat.h>
#include <fcntl.h>
#include <time.h>
#include <zlib.h>
#include "sinks/rotatingfilesink.h"
#include "logmessage.h"
using namespace QtLogger;

// ---- virtual wall clock
static long long g_now_ms = 1900000000000LL;   // 2030-03-17
extern "C" int gettimeofday(struct timeval *tv, void *) { tv->tv_sec = g_now_ms / 1000; tv->tv_usec = (g_now_ms % 1000) * 1000; return 0; }
extern "C" int clock_gettime(clockid_t id, struct timespec *ts) {
    if (id == CLOCK_REALTIME || id == CLOCK_REALTIME_COARSE) { ts->tv_sec = g_now_ms / 1000; ts->tv_nsec = (g_now_ms % 1000) * 1000000; return 0; }
    ts->tv_sec = g_now_ms / 1000; ts->tv_nsec = (g_now_ms % 1000) * 1000000; return 0; }
static long long dayOf(long long ms) { return QDateTime::fromMSecsSinceEpoch(ms).date().toJulianDay(); }

static unsigned long long rng_state;
static unsigned rnd(unsigned n) { rng_state = rng_state * 6364136223846793005ULL + 1442695040888963407ULL; return (unsigned)((rng_state >> 33) % (n ? n : 1)); }

struct Rec { std::string bytes; long long day; };
static std::vector<Rec> recs;                       // every record written, in order
static QString dir, base, suffix; static long long gran_ms;
static std::map<std::string, std::string> seenContent;  // rotated file name (without .gz) -> content when first seen
static std::vector<std::string> appearance;             // rotated names in order of first appearance
static std::set<std::string> everSeen;
static std::map<std::string, long long> stamped;
static std::string hist;

static std::string gunzip(const QByteArray &gz, bool &ok) {
    ok = false; std::string out; z_stream s{}; if (inflateInit2(&s, 15 + 16) != Z_OK) return out;
    s.next_in = (Bytef *)gz.constData(); s.avail_in = gz.size(); char buf[65536]; int rc;
    do { s.next_out = (Bytef *)buf; s.avail_out = sizeof buf; rc = inflate(&s, Z_NO_FLUSH);
         if (rc != Z_OK && rc != Z_STREAM_END) { inflateEnd(&s); return out; }
         out.append(buf, sizeof buf - s.avail_out); } while (rc != Z_STREAM_END);
    inflateEnd(&s); ok = (s.avail_in == 0); return out;
}
static std::string readFile(const QString &p) { QFile f(p); f.open(QIODevice::ReadOnly); QByteArray b = f.readAll(); return std::string(b.constData(), b.size()); }
static void stampNew() {   // give files created since the last step the virtual time (rounded to the timestamp granularity)
    for (const QFileInfo &fi : QDir(dir).entryInfoList(QDir::Files)) {
        std::string n = fi.fileName().toStdString(); long long sz = fi.size();
        bool active = fi.fileName() == (suffix.isEmpty() ? base : base + "." + suffix);
        // a file whose timestamp is REAL time (the virtual clock runs in 2030) was created or written since the last step
        const bool realStamp = fi.lastModified().toMSecsSinceEpoch() < 1890000000000LL;
        if (realStamp || !stamped.count(n)) {
            long long t = g_now_ms - (g_now_ms % gran_ms); struct timespec ts[2] = {{t / 1000, (t % 1000) * 1000000}, {t / 1000, (t % 1000) * 1000000}};
            utimensat(AT_FDCWD, fi.absoluteFilePath().toLocal8Bit().constData(), ts, 0); stamped[n] = sz; }
    }
}
static int fail(const char *prop, const std::string &what) {
    printf("VIOLATION of %s on the real RotatingFileSink: %s\nFAILING HISTORY: %s\n", prop, what.c_str(), hist.c_str());
    printf("directory now:"); for (const QString &n : QDir(dir).entryList(QDir::Files, QDir::Name)) printf(" %s(%lld)", n.toLocal8Bit().constData(), (long long)QFileInfo(dir + "/" + n).size());
    printf("\n"); return 1;
}
static bool parseRot(const QString &name, QString &date, int &idx, bool &gz) {
    QRegularExpression re(suffix.isEmpty() ? "^" + QRegularExpression::escape(base) + "\\.(\\d{4}-\\d{2}-\\d{2})\\.(\\d+)(\\.gz)?$"
                                           : "^" + QRegularExpression::escape(base) + "\\.(\\d{4}-\\d{2}-\\d{2})\\.(\\d+)\\." + QRegularExpression::escape(suffix) + "(\\.gz)?$");
    auto m = re.match(name); if (!m.hasMatch()) return false; date = m.captured(1); idx = m.captured(2).toInt(); gz = !m.captured(3).isEmpty(); return true;
}

int main(int argc, char **argv) {
    std::string prop = argv[1]; unsigned long long seed = strtoull(argv[2], 0, 10); int runs = atoi(argv[3]); QString root = argv[4];
    bool avoidKnown = argc > 5 && atoi(argv[5]);   // leave out the input class of a recorded finding (C06: timestamp ties, C09: wall clock != message day)
    if (prop == "C08") {
        // large rotated files (sizes around and above typical I/O block sizes): the .gz must still be ONE valid gzip stream of exactly the log
        for (long long sz : {65537LL, 1048576LL, 1048577LL, 2500000LL, 4200000LL}) {
            dir = root + QString("/big%1").arg(sz); QDir().mkpath(dir); QString path = dir + "/app.log";
            std::string content; content.reserve(sz); rng_state = seed * 77ULL + sz;
            while ((long long)content.size() < sz) { int n = 20 + rnd(60); for (int i = 0; i < n && (long long)content.size() < sz - 1; ++i) content += (char)(rnd(4) ? 'a' + rnd(26) : 32 + rnd(95)); content += '\n'; }
            { QFile f(path); f.open(QIODevice::WriteOnly); f.write(content.data(), content.size()); f.close(); }
            { RotatingFileSink sink(path, 0, 0, RotatingFileSink::Options(RotatingFileSink::RotationOnStartup | RotatingFileSink::Compression));
              LogMessage m(QtInfoMsg, QMessageLogContext("f.cpp", 1, "fn", "cat"), QString("x")); m.setFormattedMessage("first"); sink.send(m); sink.flush(); }
            QStringList gzs = QDir(dir).entryList(QStringList() << "*.gz", QDir::Files);
            hist = "pre-existing app.log of " + std::to_string(sz) + " bytes, RotationOnStartup|Compression, one message;";
            if (gzs.size() != 1) return fail("C08", "expected exactly one compressed rotated file, found " + std::to_string(gzs.size()));
            bool ok; std::string back = gunzip(QByteArray::fromStdString(readFile(dir + "/" + gzs[0])), ok);
            if (!ok) return fail("C08", "compressed rotated file " + gzs[0].toStdString() + " (" + std::to_string(sz) + " bytes of log) is not a valid gzip stream");
            if (back != content) return fail("C08", "gunzip of " + gzs[0].toStdString() + " differs from the rotated log (" + std::to_string(back.size()) + " vs " + std::to_string(content.size()) + " bytes)");
            QDir(dir).removeRecursively();
        }
    }
    for (int run = 0; run < runs; ++run) {
        rng_state = seed * 1000003ULL + run; recs.clear(); seenContent.clear(); appearance.clear(); everSeen.clear(); stamped.clear(); hist.clear();
        dir = root + QString("/run%1").arg(run); QDir().mkpath(dir);
        bool withSuffix = rnd(4) != 0; base = "app"; suffix = withSuffix ? "log" : ""; QString path = dir + "/" + (withSuffix ? "app.log" : "app");
        int L = (prop == "C09" && rnd(2)) ? 0 : (int)(8 + rnd(40)); if (prop == "C06" && rnd(3) == 0) L = 12;
        int N = prop == "C06" ? (int)rnd(6) - 1 : (prop == "C05" || prop == "C08" || prop == "C09" || prop == "C07") ? (rnd(3) ? 0 : 50) : 0;
        int opts = 0; if (rnd(3) == 0) opts |= RotatingFileSink::RotationOnStartup; if (prop == "C09" || rnd(3) == 0) opts |= RotatingFileSink::RotationDaily;
        if (rnd(3) == 0 || prop == "C08") opts |= RotatingFileSink::Compression;
        gran_ms = (prop == "C06" && !avoidKnown) ? (rnd(2) ? 1000 : 1) : 1;
        g_now_ms = 1900000000000LL + (long long)rnd(86400) * 1000;
        // foreign look-alike files (C06: never touched)
        std::map<std::string, std::string> foreign;
        if (prop == "C06") for (const char *n : {"web-app.2020-01-01.1.log", "app.2020-01-01.x.log", "app.log.bak", "app.2020-01-01.1.log.bak", "xapp.2020-01-01.1"}) {
            QFile f(dir + "/" + n); f.open(QIODevice::WriteOnly); f.write("foreign\n"); f.close(); foreign[n] = "foreign\n"; }
        hist = QString("path=%1 L=%2 N=%3 options=%4 timestamp-granularity=%5ms;").arg(path.mid(root.size() + 1)).arg(L).arg(N).arg(opts).arg(gran_ms).toStdString();
        stampNew();
        RotatingFileSink *sink = new RotatingFileSink(path, L, N, RotatingFileSink::Options(opts));
        int steps = 6 + rnd(30);
        for (int st = 0; st < steps; ++st) {
            unsigned op = rnd(10);
            if (op == 0) { delete sink; stampNew(); sink = new RotatingFileSink(path, L, N, RotatingFileSink::Options(opts)); hist += " restart;"; continue; }
            if (op == 1) { long long d = 1 + rnd(3); g_now_ms += d * 86400000LL - rnd(3600) * 1000; hist += " +" + std::to_string(d) + "day;"; continue; }
            if (op == 2) { g_now_ms += 1 + rnd(5000); hist += " +ms;"; continue; }
            // a record: r<seq>; + padding (sometimes multi-byte UTF-8), sizes around the limit
            QString text = QString("r%1;").arg(recs.size());
            int want = L > 0 ? (int)(L - 4 + rnd(8)) : (int)rnd(30); bool utf = rnd(4) == 0;
            while (text.toUtf8().size() + 1 < want) text += utf ? QString::fromUtf8("\xc3\xa9") : (prop == "C08" && rnd(5) == 0) ? QString("\r") : QString("x");
            QMessageLogContext ctx("f.cpp", 1, "fn", "cat");
            LogMessage msg(QtInfoMsg, ctx, text);           // the message's time is the virtual clock NOW
            bool late = (prop == "C09") && !avoidKnown && rnd(5) == 0;     // asynchronous delivery: written after midnight
            if (late) { long long tomorrow = (g_now_ms / 86400000LL + 1) * 86400000LL; g_now_ms = tomorrow + 3600000 * 2 + rnd(1000); }
            sink->send(msg); sink->flush();
            Rec r; r.bytes = std::string(text.toUtf8().constData(), text.toUtf8().size()) + "\n"; r.day = msg.time().date().toJulianDay(); recs.push_back(r);
            hist += (late ? " write-late(" : " write(") + std::to_string(r.bytes.size()) + "B,day" + std::to_string(r.day % 1000) + ");";
            stampNew();
            g_now_ms += (prop == "C06" && avoidKnown) ? 2 + rnd(50) : (rnd(3) ? 0 : 1 + rnd(900));
            // ---- observe the directory
            QStringList names = QDir(dir).entryList(QDir::Files, QDir::Name); std::set<std::string> present; std::string activeContent; bool haveActive = false;
            for (const QString &n : names) {
                QString date; int idx; bool gz;
                if (n == (withSuffix ? "app.log" : "app")) { activeContent = readFile(dir + "/" + n); haveActive = true; continue; }
                if (foreign.count(n.toStdString())) continue;
                if (!parseRot(n, date, idx, gz)) continue;
                std::string key = (gz ? n.left(n.size() - 3) : n).toStdString(); present.insert(key);
                if (!seenContent.count(key)) {
                    std::string c; if (gz) { bool ok; c = gunzip(QByteArray::fromStdString(readFile(dir + "/" + n)), ok); if (!ok && (prop == "C05" || prop == "C08")) return fail(prop.c_str(), "compressed rotated file " + n.toStdString() + " is not a valid gzip stream (header, deflate payload, CRC-32 and length must all check)"); }
                    else c = readFile(dir + "/" + n);
                    if (everSeen.count(key) && (prop == "C09" || prop == "C05")) return fail(prop.c_str(), "rotated name " + key + " was used before and is used again (overwritten / reused)");
                    seenContent[key] = c; appearance.push_back(key); everSeen.insert(key);
                }
            }
            for (auto &f : foreign) if (prop == "C06" && (!QFile::exists(dir + "/" + QString::fromStdString(f.first)) || readFile(dir + "/" + QString::fromStdString(f.first)) != f.second))
                return fail("C06", "foreign file " + f.first + " (not of this sink's rotated-name scheme) was removed or changed");
            // ---- the statements
            std::string all; for (auto &r2 : recs) all += r2.bytes;
            std::string cat; for (auto &k : appearance) cat += seenContent[k]; cat += activeContent;
            if ((prop == "C05" || prop == "C08") && N <= 0 && cat != all) return fail(prop.c_str(), "rotated files in rotation order + active file (" + std::to_string(cat.size()) + " bytes) != records written (" + std::to_string(all.size()) + " bytes)");
            if (prop == "C06") {
                int nfiles = (haveActive ? 1 : 0) + (int)present.size();
                if (N >= 2 && nfiles > N) return fail("C06", std::to_string(nfiles) + " log files exist after a write, limit N=" + std::to_string(N));
                if (N == 1 && !present.empty()) return fail("C06", "a rotated file exists although N=1");
                if (N <= 0 && present.size() != appearance.size()) return fail("C06", "a rotated file was deleted although N<=0");
                // survivors must be the most recent ones in rotation (appearance) order
                bool gone = false; for (int i = (int)appearance.size() - 1; i >= 0; --i) { bool here = present.count(appearance[i]); if (!here) gone = true; else if (gone)
                    return fail("C06", "rotated file " + appearance[i] + " survives although a NEWER rotated file was removed (not oldest-first)"); }
            }
            if (prop == "C07" && L > 0 && N != 1) {
                auto chk = [&](const std::string &name, const std::string &c) { size_t nl = 0; for (char ch : c) nl += ch == '\n'; return !((long long)c.size() > L && nl > 1); };
                if (!chk("active", activeContent)) return fail("C07", "active file is " + std::to_string(activeContent.size()) + " bytes > L=" + std::to_string(L) + " and holds several records");
                for (auto &k : appearance) if (!chk(k, seenContent[k])) return fail("C07", "rotated file " + k + " is " + std::to_string(seenContent[k].size()) + " bytes > L=" + std::to_string(L) + " and holds several records");
                if (!activeContent.empty() && activeContent.back() != '\n') return fail("C07", "active file ends inside a record");
            }
            if (prop == "C09" && (opts & RotatingFileSink::RotationDaily) && N != 1) {
                // map every line r<seq>; back to its day
                auto days = [&](const std::string &c, std::set<long long> &out) { size_t p = 0; while (p < c.size()) { size_t e = c.find('\n', p); if (e == std::string::npos) e = c.size();
                    if (c[p] == 'r') { size_t seq = strtoul(c.c_str() + p + 1, 0, 10); if (seq < recs.size()) out.insert(recs[seq].day); } p = e + 1; } };
                std::set<long long> d; days(activeContent, d);
                if (d.size() > 1) return fail("C09", "the active file holds records of " + std::to_string(d.size()) + " different calendar days");
                for (auto &k : appearance) { std::set<long long> dd; days(seenContent[k], dd);
                    if (dd.size() > 1) return fail("C09", "rotated file " + k + " holds records of different calendar days");
                    QString date; int idx; bool gz; parseRot(QString::fromStdString(k), date, idx, gz);
                    if (dd.size() == 1 && QDate::fromString(date, "yyyy-MM-dd").toJulianDay() != *dd.begin())
                        return fail("C09", "rotated file " + k + " holds records written on " + QDate::fromJulianDay(*dd.begin()).toString("yyyy-MM-dd").toStdString() + " (its name carries another day)"); }
            }
        }
        delete sink; QDir(dir).removeRecursively();
    }
    printf("no failing history among %d seeded random histories (seed %llu) for %s\n", runs, seed, prop.c_str());
    return 0;
}
'''

def known_classes(prop):
    import json
    try: k = json.load(open(os.path.join(os.path.dirname(os.path.dirname(os.path.abspath(__file__))), 'known_findings.json')))
    except Exception: return []
    return [f['id'] for f in k.get('findings', []) if f.get('property') == prop]

def replay(prop, rec, workdir, runs=400):
    seed = int(os.environ.get('VERIF_SEED', '0') or 0) + 1
    # histories of a RECORDED finding's input class are not generated: a new violation must be shown by another input
    avoid = '1' if known_classes(prop) else '0'
    try:
        exe = common.build_driver(workdir, 'fs_replay', DRIVER, sanitize=False, extra=['-lz'])
    except Exception as e:
        return False, 'replay build failed: %s' % e
    tmp = tempfile.mkdtemp(prefix='vf_fs_replay_')
    try:
        rc, out = common.run(exe, [prop, str(seed), str(runs), tmp, avoid], timeout=900)
    finally:
        shutil.rmtree(tmp, ignore_errors=True)
    return rc == 1, ('native replay on the real RotatingFileSink (virtual clock, %d seeded random histories, seed %d; bounded search, proves nothing):\n' % (runs, seed)) + out[-3500:]
