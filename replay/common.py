"""Native replay support: builds the library from /repo's CURRENT working tree (never the _build copy)
and compiles a driver against it.  Everything goes under the check's build directory."""
import glob, hashlib, os, subprocess, sys
from concurrent.futures import ThreadPoolExecutor
sys.path.insert(0, os.path.dirname(os.path.dirname(os.path.abspath(__file__))))
from vf import cxxast

QTINC = ['-I/usr/include/x86_64-linux-gnu/qt5', '-I/usr/include/x86_64-linux-gnu/qt5/QtCore']
CXXFLAGS = ['-std=c++17', '-fPIC', '-O1', '-g0', '-w', '-DQTLOGGER_STATIC', '-DQTLOGGER_SYSLOG', '-DQT_CORE_LIB', '-DQT_NO_DEBUG',
            '-fno-access-control']

def build_lib(workdir, sanitize=False):
    """-> path of libqtlogger_replay.a built from the working tree (cached by tree hash)."""
    src = cxxast.SRC
    tag = cxxast.tree_hash() + ('_san2' if sanitize else '')
    libdir = os.path.join(os.path.dirname(cxxast.CACHE), 'replaylib', tag)
    lib = os.path.join(libdir, 'libqtlogger_replay.a')
    if os.path.exists(lib): return lib
    os.makedirs(libdir, exist_ok=True)
    cpps = sorted(glob.glob(os.path.join(src, '**', '*.cpp'), recursive=True))
    skip = ('httpsink', 'androidlogsink', 'oslogsink', 'sdjournalsink', 'moc_')
    cpps = [c for c in cpps if not any(s in os.path.basename(c) for s in skip)]
    # classes with Q_OBJECT need moc
    mocs = []
    for h in sorted(glob.glob(os.path.join(src, '**', '*.h'), recursive=True)):
        if any(s in os.path.basename(h) for s in skip): continue
        if 'Q_OBJECT' in open(h, errors='replace').read():
            out = os.path.join(libdir, 'moc_' + os.path.basename(h).replace('.h', '.cpp'))
            moc = '/usr/lib/qt5/bin/moc'
            subprocess.run([moc, '-DQTLOGGER_STATIC', '-I' + src, h, '-o', out], check=True)
            mocs.append(out)
    flags = CXXFLAGS + (['-fsanitize=address,undefined', '-DQT_FORCE_ASSERTS', '-UQT_NO_DEBUG'] if sanitize else []) + QTINC + ['-I' + src]      # Qt's inline index assertions abort (a negative index otherwise reads the array header silently)
    def cc(c):
        o = os.path.join(libdir, hashlib.md5(c.encode()).hexdigest()[:10] + '_' + os.path.basename(c) + '.o')
        r = subprocess.run(['g++'] + flags + ['-c', c, '-o', o], capture_output=True, text=True)
        if r.returncode != 0: raise RuntimeError('compile failed: %s\n%s' % (c, r.stderr[-2000:]))
        return o
    with ThreadPoolExecutor(14) as ex:
        objs = list(ex.map(cc, cpps + mocs))
    subprocess.run(['ar', 'rcs', lib] + objs, check=True)
    return lib

def build_driver(workdir, name, source_text, sanitize=False, extra=()):
    os.makedirs(workdir, exist_ok=True)
    lib = build_lib(workdir, sanitize)
    cpp = os.path.join(workdir, name + '.cpp'); exe = os.path.join(workdir, name)
    open(cpp, 'w').write(source_text)
    flags = CXXFLAGS + (['-fsanitize=address,undefined', '-DQT_FORCE_ASSERTS', '-UQT_NO_DEBUG'] if sanitize else []) + QTINC + ['-I' + cxxast.SRC]
    r = subprocess.run(['g++'] + flags + [cpp, lib, '-lQt5Core', '-lpthread', '-ldl'] + list(extra) + ['-o', exe], capture_output=True, text=True)
    if r.returncode != 0: raise RuntimeError('driver compile failed:\n' + r.stderr[-3000:])
    return exe

def run(exe, args=(), timeout=600, env=None, cwd=None):
    e = dict(os.environ); e.update(env or {})
    r = subprocess.run([exe] + list(args), capture_output=True, text=True, timeout=timeout, env=e, cwd=cwd)
    return r.returncode, (r.stdout + r.stderr)
