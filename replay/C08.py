import os, sys
sys.path.insert(0, os.path.dirname(os.path.abspath(__file__)))
import fs_driver
def replay(rec, workdir):
    return fs_driver.replay("C08", rec, workdir)
