"""C14 native replay: awkward and seeded-random patterns, function signatures, file names, categories and messages through the real
PatternFormatter / PrettyFormatter / CategoryFilter built from the working tree with AddressSanitizer + UBSan; every case runs under a
5 s alarm.  A sanitizer report, an abort (uncaught exception) or a time-out names the failing input.  Bounded: proves nothing.
Patterns whose OUTPUT genuinely needs gigabytes (padding widths above 10^6) are not generated: memory exhaustion is outside C14's model."""
import os, sys
sys.path.insert(0, os.path.dirname(os.path.abspath(__file__)))
import common
DRIVER = r'''
#include <QtCore>
#include <cstdio>
#include <csignal>
#include <unistd.h>
#include <sys/wait.h>
#include "formatters/patternformatter.h"
#include "formatters/prettyformatter.h"
#include "filters/categoryfilter.h"
#include "logmessage.h"
using namespace QtLogger;
struct Case { QByteArray pattern, func, file, cat, msg; };
static QList<Case> cases;
static unsigned long long rng;
static unsigned rnd() { rng = rng * 6364136223846793005ULL + 1442695040888963407ULL; return (unsigned)(rng >> 33); }
static QByteArray pick(const QList<QByteArray> &frag, int maxn) { QByteArray s; int n = rnd() % (maxn + 1); for (int i = 0; i < n; ++i) s += frag[rnd() % frag.size()]; return s; }
static void run_case(const Case &c) {
    QMessageLogContext ctx(c.file.constData(), 42, c.func.constData(), c.cat.isEmpty() ? "default" : c.cat.constData());
    static const QtMsgType types[] = {QtDebugMsg, QtWarningMsg, QtCriticalMsg, QtInfoMsg};
    for (QtMsgType t : types) {
        LogMessage m(t, ctx, QString::fromUtf8(c.msg));
        m.setAttribute("user", QString::fromUtf8(c.msg).left(7)); m.setAttribute("empty", QString());
        PatternFormatter pf(QString::fromUtf8(c.pattern)); volatile int n = pf.format(m).size(); (void)n;
        PatternFormatter ff(QStringLiteral("%{func}|%{function}|%{shortfile}|%{shortfile /a}|%{file:>9!}|%{category:*^12!}")); n = ff.format(m).size();
        PrettyFormatter pr(t == QtInfoMsg, (int)(c.msg.size() % 40) - 3); n = pr.format(m).size(); n = pr.format(m).size();
        CategoryFilter cf(QString::fromUtf8(c.pattern)); bool b = cf.filter(m); (void)b;
        CategoryFilter cg(QString::fromUtf8(c.cat) + QStringLiteral(".debug=false;*.x=true\n") + QString::fromUtf8(c.func)); b = cg.filter(m);
    }
}
int main(int argc, char **argv) {
    rng = argc > 1 ? strtoull(argv[1], 0, 10) : 1;
    const char *sigs[] = {"", "(", ")", "]", "x]", "[", "operator", "operator()", "operator ()", "void f()", "int a::operator<<(int)", "a::operator()(int) const", "bool operator==(A, B)",
        "<lambda(int)>::Local::Local()", "void<lambda(int)>::Local::method()", "<lambda(int)>", "main()::<lambda()>", "auto ns::f()::<lambda(auto:1)> [with auto:1 = int]",
        "void f() [with T = int]", "-[Cls method:]", "+[Cls m]", "std::vector<int> ns::f<A<B>>(C<D>)", "int (*f(int))(double)", "(*)(", ")(", "(*a)(", "x(*y(z))(w)", "()::", "a()::b()::c",
        "operator()::x()::", "T<operator>", "operator<", "operator>", "operator>>", "a<b>::operator><c>()", "x operator", " operator", "::operator", "a::::operator", ")::operator", ">::operator",
        "a<b>c>d<e", ">>>>", "<<<<", "<>", "<lambda", "lambda>", "f() const", "f() const volatile noexcept override final", " const", " final final", "* f()", "& f()", "   ",
        "void  spaced  ::  name ( int )", "a b c d e f", "virtual void A<T>::f(int) [with T = std::map<int, std::pair<int, int> >]", "\xff\xfe(\x80)", "operator\xff()"};
    const char *pats[] = {"", "%", "%%", "%{", "%{}", "%{x", "}%{", "%{message}", "%{message:}", "%{message:<}", "%{message:<0}", "%{message:<-5}", "%{message:<5}", "%{message:<<5}", "%{message:><5!}",
        "%{message:5!}", "%{message:!}", "%{message:!!}", "%{message:x!}", "%{message:<4294967306}", "%{message:_^99999999999!}", "%{message:2147483647!}", "%{message:1100000000!}|",
        "%{message:2000000000!}%{type:2000000000!}%{category:2000000000!}", "%{message:<2147483648}", "%{message:<99999999999999999999}", "%{type:^7}%{line:0>6}%{threadid:3!}%{qthreadptr}",
        "%{user?}", "%{user?1}", "%{user?1,1}", "%{nouser?1,1}]", "[%{nouser?1}", "%{nouser?999999,3}abc", "%{nouser?-1,-1}", "%{nouser?,}", "%{nouser?x,y}", "%{nouser?2147483647}", "%{nouser?0,50}x%{nouser?0,50}",
        "%{nouser}", "%{empty}", "%{empty?1,1}", "%{if-debug}D%{endif}%{if-warning}W%{endif}%{if-critical}C%{endif}%{if-info}I%{endif}%{if-fatal}F%{endif}", "%{if-}", "%{if-x}a%{endif}", "%{endif}", "%{if-debug}",
        "%{time}", "%{time process}", "%{time boot}", "%{time yyyy-MM-dd hh:mm:ss.zzz}", "%{time  }", "%{time:}", "%{time x:<3}", "%{shortfile}", "%{shortfile }", "%{shortfile /}", "%{func}", "%{function}",
        "%{func:<3!}", "%{category}", "%{file}", "%{line}", "%{message:\xe2\x80\x8b<5}", "\xe2\x80\x8b%{message}\xe2\x80\x8b", "%{a:b:c:<5}", "%{:<5}", "%{::}", "%{message:<5}}", "%{%{message}}", "%%{message}", "%%%{message}"};
    const char *msgs[] = {"", "m", "hello world", "\xe2\x80\x8b", "a\xe2\x80\x8b", "\xe2\x80\x8b\xe2\x80\x8b\xe2\x80\x8b", "%{message}", "%{", "}", "\xf0\x9f\x98\x80 astral", "\xff\xfe broken utf8", "line1\nline2"};
    const char *files[] = {"", "f.cpp", "/a/b/c.cpp", "/a", "/a/", "a\\b\\c.cpp", "\\", "/", "//", "C:\\x\\y.cpp"};
    const char *cats[] = {"", "default", "app", "app.net.http", "*", ".*", "a.b.debug", "(", "[x", "\\", "x\n"};
    for (const char *s : sigs) for (int k = 0; k < 3; ++k) cases.append({pats[(cases.size() * 7 + k) % (int)(sizeof pats / sizeof *pats)], s, files[cases.size() % 10], cats[cases.size() % 11], msgs[cases.size() % 12]});
    for (const char *p : pats) cases.append({p, sigs[cases.size() % (int)(sizeof sigs / sizeof *sigs)], files[cases.size() % 10], cats[cases.size() % 11], msgs[cases.size() % 12]});
    QList<QByteArray> sfrag = {"(", ")", "<", ">", "[", "]", "::", "*", "&", " ", "operator", "lambda", " const", " final", "()::", "(*", ")(", "a", "B9", "_", "<lambda(", "~", "=", "with T = ", "\xc3\xa9"};
    QList<QByteArray> pfrag = {"%", "{", "}", "%{", ":", "<", ">", "^", "!", "?", ",", "0", "7", "12", "message", "type", "func", "user", "nouser", "if-warning", "endif", "time ", "shortfile ", " ", "x", "\xe2\x80\x8b", "%%", "category", "*"};
    for (int i = 0; i < 1500; ++i) { QByteArray m = pick(pfrag, 6); cases.append({pick(pfrag, 14), pick(sfrag, 18), pick(sfrag, 5), pick(sfrag, 3).left(12), m}); }
    cases.append({QByteArray(3000, '%') + "%{message}" + QByteArray(3000, '{'), QByteArray(20000, '<') + QByteArray(20000, '>'), QByteArray(65536, '/'), QByteArray(200, 'c'), QByteArray(65536, 'm')});
    cases.append({"%{func}", QByteArray(30000, '(') + QByteArray(30000, ')') + "::" + QByteArray(3000, ':'), "f", "c", "m"});
    int fds[2]; if (pipe(fds)) return 3;
    pid_t pid = fork();
    if (pid == 0) {
        close(fds[0]);
        for (int i = 0; i < cases.size(); ++i) { if (write(fds[1], &i, sizeof i) != sizeof i) _exit(4); alarm(5); run_case(cases[i]); }
        alarm(0); _exit(0);
    }
    close(fds[1]);
    int last = -1, i; while (read(fds[0], &i, sizeof i) == sizeof i) last = i;
    int st = 0; waitpid(pid, &st, 0);
    if (WIFEXITED(st) && WEXITSTATUS(st) == 0) { printf("%d cases, no sanitizer report, no abort, no time-out\n", (int)cases.size()); return 0; }
    const Case &c = cases[last < 0 ? 0 : last];
    const char *how = (WIFSIGNALED(st) && WTERMSIG(st) == SIGALRM) ? "did not finish within 5 s (hang)" : WIFSIGNALED(st) ? "killed by a signal (crash / abort)" : "sanitizer report or abnormal exit";
    printf("FAILING INPUT (case %d): %s\n  pattern/rules = \"%s\"\n  function = \"%s\"\n  file = \"%s\"\n  category = \"%s\"\n  message = \"%s\"\n", last, how,
           c.pattern.left(300).toPercentEncoding(" %{}:<>^!?,-").constData(), c.func.left(300).toPercentEncoding(" ()<>[]:*&,=").constData(), c.file.left(80).toPercentEncoding("/").constData(),
           c.cat.left(80).toPercentEncoding(".*").constData(), c.msg.left(80).toPercentEncoding(" %{}").constData());
    return 1;
}
'''
def replay(rec, workdir):
    try: exe = common.build_driver(workdir, 'c14_fuzz', DRIVER, sanitize=True)
    except Exception as e: return False, 'replay build failed: %s' % e
    seed = os.environ.get('VERIF_SEED', '1')
    env = {'UBSAN_OPTIONS': 'halt_on_error=1:abort_on_error=1:print_stacktrace=1', 'ASAN_OPTIONS': 'detect_leaks=0:allocator_may_return_null=0:max_allocation_size_mb=3000'}
    try: rc, out = common.run(exe, [seed], timeout=900, env=env)
    except Exception as e: return False, 'replay run failed: %r' % e
    return rc == 1, 'native replay (ASan+UBSan build of the working tree, 5 s per case, seed %s; bounded set of inputs, proves nothing):\n%s' % (seed, out[-3000:])
if __name__ == '__main__':
    print(replay({}, '/tmp/c14_replay_dev'))
