import os, sys
sys.path.insert(0, os.path.dirname(os.path.abspath(__file__)))
import fs_driver
def replay(rec, workdir):
    # crash points and I/O failures cannot be produced by this driver: it only re-checks the failure-free histories (C05 statement)
    ok, text = fs_driver.replay("C05", rec, workdir)
    return ok, "(failure-free histories only; crash points / injected I/O failures are not reproducible natively here)\n" + text
