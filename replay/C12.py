"""C12 native replay: seeded random patterns of the DOCUMENTED grammar x values through the real PatternFormatter, compared with an
independent reference implementation written from docs/api/formatters.md (out-of-band "remove after" counter, UTF-16 code units).
Bounded: proves nothing.  Values containing U+200B are generated only in a separate phase: that input class is the recorded finding
C12-zwsp-*; while it is listed in known_findings.json its mismatches are not reported as a (new) failing input."""
import json, os, sys
sys.path.insert(0, os.path.dirname(os.path.abspath(__file__)))
import common
DRIVER = r'''
#include <QtCore>
#include <cstdio>
#include <vector>
#include "formatters/patternformatter.h"
#include "logmessage.h"
using namespace QtLogger;
static unsigned long long st; static unsigned rnd(unsigned n) { st = st * 6364136223846793005ULL + 1442695040888963407ULL; return (unsigned)((st >> 33) % n); }
// ---------- reference: format specification [fill][align][width][!] ----------
struct Spec { bool has = false; QChar fill = ' '; char align = 0; int width = 0; bool bang = false; bool explicitFill = false; };
static bool isAl(QChar c) { return c == '<' || c == '>' || c == '^'; }
static QString refPad(const Spec &s, QString v) {
    if (!s.has) return v;
    const bool truncOnly = s.bang && !s.explicitFill;       // "!" without fill: truncate, never pad
    if (s.bang && v.size() > s.width) v = (s.align == '>') ? v.right(s.width) : v.left(s.width);
    if (truncOnly || s.align == 0 || v.size() >= s.width) return v;
    int pad = s.width - v.size();
    if (s.align == '<') return v + QString(pad, s.fill);
    if (s.align == '>') return QString(pad, s.fill) + v;
    return QString(pad / 2, s.fill) + v + QString(pad - pad / 2, s.fill);
}
// ---------- reference: tokens ----------
struct Tok { int kind; QString text; Spec spec; int cond; bool optional = false; int rb = 0, ra = 0; };   // kind 0 literal 1 message 2 type 3 category 4 line 5 file 6 attribute; cond -1 none
static const char *tnames[] = {"debug", "warning", "critical", "fatal", "info"};
static QString refFormat(const std::vector<Tok> &toks, QtMsgType type, const QString &msg, const QString &cat, const QString &file, int line, const QHash<QString, QString> &attrs) {
    QString out; int skip = 0;
    for (const Tok &t : toks) {
        if (t.cond >= 0 && t.cond != (int)type) continue;
        QString v;
        switch (t.kind) {
        case 0: { QString lit = t.text; if (skip > 0) { lit = lit.mid(qMin(skip, lit.size())); } skip = 0; out += lit; continue; }
        case 1: v = msg; break; case 2: v = tnames[(int)type]; break; case 3: v = cat; break; case 4: v = QString::number(line); break; case 5: v = file; break;
        case 6: if (attrs.contains(t.text)) { v = attrs.value(t.text); break; }
                if (!t.optional) { v = "%{" + t.text + "}"; break; }
                if (t.rb > 0 && out.size() >= t.rb) out.chop(t.rb);
                skip = t.ra; continue;
        }
        skip = 0; out += refPad(t.spec, v);
    }
    return out;
}
static QString specText(const Spec &s) { if (!s.has) return QString(); QString r = ":"; if (s.explicitFill) r += s.fill; if (s.align) r += QChar(s.align); r += QString::number(s.width); if (s.bang) r += '!'; return r; }
int main(int argc, char **argv) {
    unsigned long long seed = strtoull(argv[1], 0, 10); int runs = atoi(argv[2]); bool zwsp = atoi(argv[3]) != 0; int bad = 0, checks = 0;
    QStringList vals = {"", "m", "hello world", "%{message}", "%", "%%", "{", "}", "a:b", "x<y>z^!", QString::fromUtf8("\xf0\x9f\x98\x80 astral"), QString::fromUtf8("z\xe2\x80\x8dw joiner"),
                        QString::fromUtf8("\xe2\x80\x8c"), "tab\tnl\n", QString(40, 'w'), "?1,1", "endif", "%{if-debug}"};
    if (zwsp) vals = QStringList{QString::fromUtf8("a\xe2\x80\x8b""b"), QString::fromUtf8("m\xe2\x80\x8b"), QString::fromUtf8("\xe2\x80\x8b"), QString::fromUtf8("\xe2\x80\x8b\xe2\x80\x8bx")};
    QStringList lits = {" ", "[", "] ", " - ", "#", "(", ")", "abc", "%%", "::", " | ", "<", ">", "x%%{message}", "50%%{user?} ", "%%{type:>8}"};   // the last three: an ESCAPED placeholder look-alike is literal text
    QList<QChar> fills = {' ', '*', '0', '_', '<', '>', '^', '!', '1', 'x', QChar(0x00e9)};
    for (int run = 0; run < runs; ++run) {
        st = seed * 104729ULL + run; std::vector<Tok> toks; QString pattern; int cond = -1; int n = 1 + rnd(7);
        for (int k = 0; k < n; ++k) {
            unsigned c = rnd(12);
            if (c == 0 && cond < 0) { int t = rnd(5); cond = t; pattern += QString("%{if-") + tnames[t] + "}"; continue; }
            if (c == 1 && cond >= 0) { cond = -1; pattern += "%{endif}"; continue; }
            Tok t; t.cond = cond;
            if (c <= 4) { t.kind = 0; QString l = lits[rnd(lits.size())]; t.text = l; t.text.replace("%%", "%"); pattern += l;
                          if (!toks.empty() && toks.back().kind == 0 && toks.back().cond == cond) { toks.back().text += t.text; continue; } toks.push_back(t); continue; }
            if (rnd(2)) { Spec s; s.has = true; unsigned f = rnd(4); s.bang = rnd(3) == 0; s.width = 1 + rnd(12);
                          if (f == 0 && s.bang) { s.align = 0; }                                  // "N!"
                          else { const char al[] = {'<', '>', '^'}; s.align = al[rnd(3)]; if (f >= 2) { s.explicitFill = true; s.fill = fills[rnd(fills.size())]; } }
                          t.spec = s; }
            if (c <= 9) { const char *names[] = {"message", "type", "category", "line", "file"}; int w = rnd(5); t.kind = 1 + w; pattern += QString("%{") + names[w] + specText(t.spec) + "}"; toks.push_back(t); continue; }
            // attribute: present ("user"), present with an empty value ("empty"), or missing ("nouser")
            t.kind = 6; const char *an[] = {"user", "empty", "nouser"}; t.text = an[rnd(3)]; t.optional = rnd(2);
            QString ph = "%{" + t.text;
            if (t.optional) { ph += "?"; t.spec = Spec();
                // documented use: N characters of the literal directly before, M characters of the literal directly after
                int maxb = (!toks.empty() && toks.back().kind == 0 && toks.back().cond == cond) ? toks.back().text.size() : 0; t.rb = maxb ? rnd(maxb + 1) : 0;
                QString after = lits[rnd(lits.size())]; QString afterText = after; afterText.replace("%%", "%"); t.ra = rnd(afterText.size() + 1);
                if (t.rb || t.ra) ph += QString::number(t.rb); if (t.ra) ph += "," + QString::number(t.ra);
                pattern += ph + "}"; toks.push_back(t);
                Tok l; l.kind = 0; l.cond = cond; l.text = afterText; pattern += after; toks.push_back(l); continue; }
            pattern += ph + specText(t.spec) + "}"; toks.push_back(t);
        }
        // documented: "%%" is a literal '%' wherever it stands in literal text -- also behind a placeholder that is never closed (its "%{"
        // is then ordinary text).  One unterminated placeholder at the END of the pattern, followed by literal text without '}'.
        if (rnd(5) == 0) {
            Tok l; l.kind = 0; l.cond = cond; const char *heads[] = {"%{type ", "%{oops", "%{", "%{message:<5"}; QString head = heads[rnd(4)]; pattern += head; l.text = head;
            int extra = rnd(3); for (int e = 0; e < extra; ++e) { QString frag = lits[rnd(lits.size())]; if (frag.contains('}')) continue; pattern += frag; QString t = frag; t.replace("%%", "%"); l.text += t; }
            if (!toks.empty() && toks.back().kind == 0 && toks.back().cond == cond) toks.back().text += l.text; else toks.push_back(l);
        }
        PatternFormatter pf(pattern);
        for (int vi = 0; vi < vals.size(); ++vi) for (int ty = 0; ty < 5; ++ty) {
            if (ty == 3) continue;                                      // (fatal: nothing special for the formatter; skipped to keep runs short)
            QString msg = vals[vi], cat = vals[(vi + 3) % vals.size()].toLatin1().replace('\n', ' '), file = vals[(vi + 5) % vals.size()].toLatin1();
            if (cat.isEmpty()) cat = "default";
            QByteArray catb = cat.toUtf8(), fileb = file.toUtf8();
            QMessageLogContext ctx(fileb.constData(), 10 + vi, "void f()", catb.constData());
            LogMessage m((QtMsgType)ty, ctx, msg); QHash<QString, QString> attrs; attrs["user"] = vals[(vi + 7) % vals.size()]; attrs["empty"] = QString();
            m.setAttribute("user", attrs["user"]); m.setAttribute("empty", QString());
            QString got = pf.format(m), want = toks.empty() ? msg : refFormat(toks, (QtMsgType)ty, msg, QString::fromUtf8(catb), QString::fromUtf8(fileb), 10 + vi, attrs); ++checks;
            if (got != want) { if (bad++ < 3) printf("FAILING INPUT: pattern=\"%s\" type=%s message=\"%s\" category=\"%s\" file=\"%s\" user=\"%s\"\n   formatter: \"%s\"\n   documented: \"%s\"\n",
                qPrintable(pattern), tnames[ty], msg.toUtf8().toPercentEncoding(" %{}:<>^!?,").constData(), catb.toPercentEncoding(" %{}").constData(), fileb.toPercentEncoding(" %{}").constData(),
                attrs["user"].toUtf8().toPercentEncoding(" %{}").constData(), got.toUtf8().toPercentEncoding(" []()|#-:<>*_^!%{}").constData(), want.toUtf8().toPercentEncoding(" []()|#-:<>*_^!%{}").constData()); }
        }
    }
    printf("%d comparisons, %d mismatch(es)%s\n", checks, bad, zwsp ? " [values containing U+200B]" : ""); return bad ? 1 : 0;
}
'''
def zwsp_listed():
    try: k = json.load(open(os.path.join(os.path.dirname(os.path.dirname(os.path.abspath(__file__))), 'known_findings.json')))
    except Exception: return False
    return any(f.get('id', '').startswith('C12-zwsp') for f in k.get('findings', []))
def replay(rec, workdir):
    try: exe = common.build_driver(workdir, 'c12_ref', DRIVER)
    except Exception as e: return False, 'replay build failed: %s' % e
    seed = os.environ.get('VERIF_SEED', '1'); runs = '1500' if os.environ.get('VERIF_TIER') == 'thorough' else '400'
    rc, out = common.run(exe, [seed, runs, '0'], timeout=900)
    text = 'native replay (independent reference written from docs/api/formatters.md, seed %s, %s random patterns; bounded, proves nothing):\n%s' % (seed, runs, out[-2500:])
    rc2, out2 = common.run(exe, [seed, '60', '1'], timeout=600)
    if zwsp_listed(): out2 = out2.replace('FAILING INPUT', 'INPUT OF THE RECORDED CLASS (known finding)')
    text += '\nvalues containing U+200B (input class of the recorded finding C12-zwsp-*%s):\n%s' % (', listed: not counted as a new failing input' if zwsp_listed() else '', out2[-1200:])
    return (rc == 1) or (rc2 == 1 and not zwsp_listed()), text
if __name__ == '__main__':
    print(replay({}, '/tmp/c12_replay_dev')[1])
