"""C18 native replay: real SentryFormatter events parsed back with QJsonDocument and compared with the property's statement."""
import os, sys
sys.path.insert(0, os.path.dirname(os.path.abspath(__file__)))
import common
DRIVER = r'''
#include <QtCore>
#include <cstdio>
#include "formatters/sentryformatter.h"
#include "logmessage.h"
using namespace QtLogger;
static int bad = 0;
#define FAIL(...) do { if (bad++ < 6) { printf("FAILING INPUT: " __VA_ARGS__); printf("\n"); } } while (0)
int main() {
    SentryFormatter f("sdk", "1.0"); QSet<QString> ids;
    QStringList texts = {"plain", "", QString(120, QChar(0x0416)), QString(60, 'a') + QString(60, QChar(0x4e2d)), QString::fromUtf8("q\"\\\n\xf0\x9f\x98\x80"), QString(300, 'x')};
    QtMsgType types[] = {QtDebugMsg, QtInfoMsg, QtWarningMsg, QtCriticalMsg}; const char *lv[] = {"debug", "info", "warning", "error"};
    QList<QVariantHash> attrsets = { {}, {{"custom_attr", "v"}, {"n", 7}}, {{"appname", "App"}, {"appversion", "2"}, {"os_name", "L"}, {"os_version", "1"}, {"kernel_version", "6"}, {"build_abi", "x"}, {"cpu_arch", "a"}, {"host_name", "h"}},
        {{"version", "V"}, {"name", "N"}, {"arch", "A"}, {"host", "H"}, {"os", "O"}, {"build", "B"}, {"abi", "I"}, {"cpu", "C"}, {"kernel", "K"}, {"app", "P"}}, {{"appname", "App"}, {"version", "9"}, {"user", "u"}} };
    const char *cats[] = {"default", "", "app.net", "x"};
    for (const QString &t : texts) for (int ty = 0; ty < 4; ++ty) for (const auto &as : attrsets) for (const char *cat : cats) {
        QMessageLogContext ctx("file.cpp", 12, "void f()", cat); LogMessage m(types[ty], ctx, t); m.setAttributes(as);
        QString out = f.format(m); QJsonParseError pe; QJsonDocument d = QJsonDocument::fromJson(out.toUtf8(), &pe);
        if (pe.error != QJsonParseError::NoError || !d.isObject()) { FAIL("not one valid JSON object"); continue; }
        QJsonObject e = d.object(); QString id = e["event_id"].toString();
        if (id.size() != 32 || !QRegularExpression("^[0-9a-f]{32}$").match(id).hasMatch()) FAIL("event_id '%s' is not 32 hex digits", qPrintable(id));
        if (ids.contains(id)) FAIL("event_id repeated"); ids.insert(id);
        if (e["level"].toString() != lv[ty]) FAIL("level '%s' for type %d", qPrintable(e["level"].toString()), ty);
        if (e["message"].toObject()["formatted"].toString() != t) FAIL("message.formatted differs from the message text");
        QDateTime ts = QDateTime::fromString(e["timestamp"].toString(), Qt::ISODate); if (!ts.isValid() || ts.timeSpec() != Qt::UTC || qAbs(ts.secsTo(m.time())) > 1) FAIL("timestamp '%s' is not the UTC ISO-8601 message time", qPrintable(e["timestamp"].toString()));
        QString c = QString::fromLatin1(cat); bool wantLogger = !c.isEmpty() && c != "default";
        if (e.contains("logger") != wantLogger || (wantLogger && e["logger"].toString() != c)) FAIL("logger field for category '%s'", cat);
        QJsonArray fp = e["fingerprint"].toArray();
        if (fp.size() != 3 || fp[0].toString() != lv[ty] || fp[1].toString() != (c.isEmpty() ? "default" : c) || fp[2].toString() != t.left(100)) FAIL("fingerprint is not [level, category or default, first 100 characters] (message of %d chars): third element has %d chars", t.size(), fp.size() == 3 ? fp[2].toString().size() : -1);
        // every custom attribute exactly once
        QJsonObject extra = e["extra"].toObject(), tags = e["tags"].toObject(), os = e["contexts"].toObject()["os"].toObject(), dev = e["contexts"].toObject()["device"].toObject();
        for (auto it = as.cbegin(); it != as.cend(); ++it) { const QString k = it.key(); QString v = it.value().toString(); int n = 0;
            if (extra.contains(k) && QJsonValue::fromVariant(it.value()) == extra[k]) ++n;
            if (k == "appname" && tags["app_name"].toString() == v) ++n; if (k == "appversion" && tags["app_version"].toString() == v) ++n;
            if (k == "os_name" && os["name"].toString() == v) ++n; if (k == "os_version" && os["version"].toString() == v) ++n; if (k == "kernel_version" && os["kernel_version"].toString() == v) ++n;
            if (k == "build_abi" && os["build"].toString() == v) ++n; if (k == "cpu_arch" && dev["arch"].toString() == v) ++n; if (k == "host_name" && dev["name"].toString() == v) ++n;
            if (n != 1) FAIL("custom attribute '%s' appears %d times in the event (want exactly once)", qPrintable(k), n); }
    }
    printf("%d failing case(s)\n", bad); return bad ? 1 : 0;
}
'''
def replay(rec, workdir):
    try: exe = common.build_driver(workdir, 'c18_sentry', DRIVER)
    except Exception as e: return False, 'replay build failed: %s' % e
    rc, out = common.run(exe, [], timeout=120)
    return rc == 1, 'native replay (events parsed back with QJsonDocument; bounded set of inputs, proves nothing):\n' + out[-2500:]
