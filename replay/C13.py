"""C13 native replay: messages over awkward Unicode / attribute sets through real JsonFormatter objects (indented and compact, in
both orders, after other formatters ran on the same message); the output is parsed back with QJsonDocument and compared."""
import os, sys
sys.path.insert(0, os.path.dirname(os.path.abspath(__file__)))
import common
DRIVER = r'''
#include <QtCore>
#include <cstdio>
#include "formatters/jsonformatter.h"
#include "formatters/patternformatter.h"
#include "logmessage.h"
using namespace QtLogger;
static int bad = 0;
#define FAIL(...) do { if (bad++ < 5) { printf("FAILING INPUT: " __VA_ARGS__); printf("\n"); } } while (0)
static void check(JsonFormatter &f, bool compact, LogMessage &m, const char *what) {
    QString out = f.format(m); QJsonParseError pe; QJsonDocument d = QJsonDocument::fromJson(out.toUtf8(), &pe);
    if (pe.error != QJsonParseError::NoError || !d.isObject()) { FAIL("%s: output is not one valid JSON object (%s)", what, qPrintable(pe.errorString())); return; }
    if (compact && out.contains('\n')) FAIL("%s: compact output contains a line break", what);
    QJsonObject o = d.object();
    if (o.value("message").toString() != m.message()) FAIL("%s: message not recovered exactly: got '%s'", what, qPrintable(o.value("message").toString().left(60)));
    if (o.value("line").toInt() != m.line() || o.value("category").toString() != QString::fromUtf8(m.category()) || o.value("file").toString() != QString::fromUtf8(m.file())
        || o.value("function").toString() != QString::fromUtf8(m.function())) FAIL("%s: line/category/file/function not recovered", what);
    const char *tn[] = {"debug", "warning", "critical", "fatal", "info"}; if (o.value("type").toString() != tn[(int)m.type()]) FAIL("%s: type not recovered", what);
    const auto attrs = m.attributes(); for (auto it = attrs.cbegin(); it != attrs.cend(); ++it) { if (!o.contains(it.key())) FAIL("%s: attribute %s missing", what, qPrintable(it.key()));
        else if (QJsonValue::fromVariant(it.value()) != o.value(it.key())) FAIL("%s: attribute %s value changed", what, qPrintable(it.key())); }
}
int main() {
    QStringList texts = {"plain", "", QString::fromUtf8("quote \" backslash \\ newline \n tab \t cr \r"), QString::fromUtf8("ctrl \x01\x1f del \x7f"), QString::fromUtf8("u2028 \xe2\x80\xa8 u2029 \xe2\x80\xa9"),
                         QString::fromUtf8("astral \xf0\x9f\x98\x80 \xf0\x9d\x94\xb8"), QString(500, QChar(0x4e2d)), "line1\nline2\n"};
    QtMsgType types[] = {QtDebugMsg, QtInfoMsg, QtWarningMsg, QtCriticalMsg};
    JsonFormatter ind(false), comp(true);
    for (int order = 0; order < 2; ++order) for (int ti = 0; ti < texts.size(); ++ti) for (int t = 0; t < 4; ++t) {
        QMessageLogContext ctx(ti % 3 ? "dir/file.cpp" : nullptr, 10 + ti, ti % 2 ? "void ns::f(int)" : nullptr, ti % 4 ? "app.net" : "default");
        LogMessage m(types[t], ctx, texts[ti]);
        QVariantHash a; a["custom"] = texts[ti]; a["n"] = 42 + ti; a["flag"] = (ti % 2 == 0); a["list"] = QVariantList{1, "two", 3.5}; a["map"] = QVariantMap{{"k", "v\n"}}; m.setAttributes(a);
        if (order == 0) { check(ind, false, m, "indented first"); check(comp, true, m, "compact after an indented formatter ran"); }
        else { PatternFormatter pf("[%{category}] %{message}"); m.setFormattedMessage(pf.format(m)); check(comp, true, m, "compact, message already formatted by a pattern formatter"); check(ind, false, m, "indented, message already formatted"); }
    }
    printf("%d failing case(s)\n", bad); return bad ? 1 : 0;
}
'''
def replay(rec, workdir):
    try: exe = common.build_driver(workdir, 'c13_json', DRIVER)
    except Exception as e: return False, 'replay build failed: %s' % e
    rc, out = common.run(exe, [], timeout=120)
    return rc == 1, 'native replay (output parsed back with QJsonDocument; bounded set of inputs, proves nothing):\n' + out[-2500:]
