"""Native replay for the threading properties (C02, C03, C04): stress / scenario runs of the real Logger and
OwnThreadHandler<SimplePipeline> with recording sinks.  Schedules are whatever the OS gives: this can SHOW a violation,
it cannot show absence."""
import os, sys
sys.path.insert(0, os.path.dirname(os.path.abspath(__file__)))
import common

DRIVER = r'''
#include <QtCore>
#include <atomic>
#include <cstdio>
#include <thread>
#include <unistd.h>
#include <vector>
#include "logger.h"
#include "ownthreadhandler.h"
#include "simplepipeline.h"
#include "sink.h"
#include "attrhandlers/seqnumberattr.h"
using namespace QtLogger;
struct Rec { int type; QString msg, file, func, cat; int line; qint64 t; quint64 tid; QVariantHash attrs; QThread *on; };
struct RecSink : Sink { std::vector<Rec> got; int delayMs = 0; std::atomic<int> *inside = nullptr; int maxInside = 0; QMutex m;
    void send(const LogMessage &l) override { int now = inside ? ++*inside : 1; if (delayMs) QThread::msleep(delayMs);
        { QMutexLocker lk(&m); if (now > maxInside) maxInside = now; got.push_back({(int)l.type(), l.message(), QString::fromUtf8(l.file()), QString::fromUtf8(l.function()), QString::fromUtf8(l.category()), l.line(),
            l.time().toMSecsSinceEpoch(), (quint64)l.threadId(), l.attributes(), QThread::currentThread()}); }
        if (inside) --*inside; } };
static int failures = 0;
#define FAIL(...) do { printf("FAILING INPUT: " __VA_ARGS__); printf("\n"); ++failures; } while (0)

static void c02() {   // N threads through a bare synchronous OwnThreadHandler<SimplePipeline>: exclusion, exactly-once, per-thread order, consecutive numbers
    for (int round = 0; round < 3; ++round) {
        OwnThreadHandler<SimplePipeline> h; std::atomic<int> inside{0}; auto sink = QSharedPointer<RecSink>::create(); sink->inside = &inside; sink->delayMs = 0;
        h.addSeqNumber(); h.append(sink);
        const int T = 8, M = 300; std::vector<std::thread> ts;
        for (int t = 0; t < T; ++t) ts.emplace_back([&h, t]() { for (int i = 0; i < M; ++i) { QMessageLogContext c("f", i, "fn", "cat"); LogMessage m(QtDebugMsg, c, QString("t%1-%2").arg(t).arg(i)); h.process(m); } });
        for (auto &t : ts) t.join();
        if (sink->maxInside > 1) FAIL("C02: %d threads were inside the pipeline of a bare synchronous OwnThreadHandler at the same time (8 producers x 300 messages)", sink->maxInside);
        if ((int)sink->got.size() != T * M) FAIL("C02: %d messages delivered, %d logged", (int)sink->got.size(), T * M);
        std::vector<int> last(T, -1); long long prev = -1; int badOrder = 0, badSeq = 0;
        for (auto &r : sink->got) { int t = r.msg.mid(1, r.msg.indexOf('-') - 1).toInt(), i = r.msg.mid(r.msg.indexOf('-') + 1).toInt(); if (i != last[t] + 1) ++badOrder; last[t] = i;
            long long s = r.attrs.value("seq_number").toLongLong(); if (prev >= 0 && s != prev + 1) ++badSeq; prev = s; }
        if (badOrder) FAIL("C02: %d messages out of per-thread order", badOrder);
        if (badSeq) FAIL("C02: %d sequence numbers not consecutive in delivery order", badSeq);
    }
}
static void c03(QCoreApplication &app) {   // async vs sync twin: same content; FIFO incl. mixed severities; long context strings; freed caller buffers
    OwnThreadHandler<SimplePipeline> a; SimplePipeline s; auto as = QSharedPointer<RecSink>::create(), ss = QSharedPointer<RecSink>::create(); as->delayMs = 5;
    a.append(as); s.append(ss); a.moveToOwnThread();
    QtMsgType types[] = {QtDebugMsg, QtInfoMsg, QtWarningMsg, QtDebugMsg, QtCriticalMsg, QtDebugMsg, QtInfoMsg, QtCriticalMsg};
    std::string longfn(400, 'x');
    for (int i = 0; i < 40; ++i) {
        char *file = strdup(i % 3 ? "some/file.cpp" : ""); char *fn = strdup(i % 5 == 0 ? longfn.c_str() : "fn"); char *cat = strdup("cat");
        { QMessageLogContext c(i % 7 == 0 ? nullptr : file, i, i % 11 == 0 ? nullptr : fn, cat); LogMessage m(types[i % 8], c, QString("m%1").arg(i)); m.setAttributes({{"k", i}});
          s.process(m); a.process(m); }
        memset(file, '#', strlen(file)); memset(fn, '#', strlen(fn)); free(file); free(fn); free(cat);    // caller buffers die right after the call
    }
    a.resetOwnThread();
    if (as->got.size() != ss->got.size()) FAIL("C03: async sink got %d messages, sync twin %d", (int)as->got.size(), (int)ss->got.size());
    for (size_t i = 0; i < as->got.size() && i < ss->got.size(); ++i) { auto &x = as->got[i], &y = ss->got[i];
        if (x.msg != y.msg) { FAIL("C03: delivery order differs at position %d: async '%s', program order '%s' (mixed severities, slow sink)", (int)i, qPrintable(x.msg), qPrintable(y.msg)); break; }
        if (x.type != y.type || x.file != y.file || x.func != y.func || x.cat != y.cat || x.line != y.line || x.t != y.t || x.tid != y.tid || x.attrs != y.attrs)
            { FAIL("C03: message '%s' differs between async and sync sink (type/file/function(%d vs %d chars)/category/line/time/thread id/attributes)", qPrintable(x.msg), x.func.size(), y.func.size()); break; }
        if (x.on == QThread::currentThread()) { FAIL("C03: a sink ran on the logging thread in asynchronous mode"); break; } }
}
static void c04(QCoreApplication &app) {
    {   // a backlog longer than any fixed bound: every accepted message is delivered before resetOwnThread returns
        // Qt delivers posted events in batches (what is queued when a batch begins): burst B (3.5 s of work) is queued while the first
        // message is being delivered, burst C while B is being delivered; the stop arrives with B running and C still queued
        OwnThreadHandler<SimplePipeline> a; auto sk = QSharedPointer<RecSink>::create(); sk->delayMs = 50; a.append(sk); a.moveToOwnThread();
        int n = 0; auto burst = [&](int k) { for (int i = 0; i < k; ++i) { QMessageLogContext c("f", i, "fn", "cat"); LogMessage m(QtDebugMsg, c, QString("b%1").arg(n++)); a.process(m); } };
        burst(1); QThread::msleep(25); burst(70); QThread::msleep(120); burst(10);
        a.resetOwnThread();
        if ((int)sk->got.size() != n) FAIL("C04: resetOwnThread returned with %d of %d accepted messages delivered (backlog of 4 s in three batches, 50 ms sink)", (int)sk->got.size(), n);
        QMessageLogContext c("f", 1, "fn", "cat"); LogMessage m(QtDebugMsg, c, "after-stop"); a.process(m);
        if (sk->got.empty() || sk->got.back().msg != "after-stop") FAIL("C04: a message logged after the stop was not delivered synchronously");
    }
    {   // repeated start/stop cycles: nothing twice, nothing lost
        OwnThreadHandler<SimplePipeline> a; auto sk = QSharedPointer<RecSink>::create(); sk->delayMs = 1; a.append(sk); int n = 0;
        for (int cyc = 0; cyc < 5; ++cyc) { a.moveToOwnThread(); a.moveToOwnThread(); for (int i = 0; i < 20; ++i) { QMessageLogContext c("f", i, "fn", "cat"); LogMessage m(QtDebugMsg, c, QString("c%1").arg(n++)); a.process(m); } a.resetOwnThread(); a.resetOwnThread(); }
        if ((int)sk->got.size() != n) FAIL("C04: %d messages delivered over 5 move/reset cycles, %d logged", (int)sk->got.size(), n);
        for (int i = 0; i < (int)sk->got.size(); ++i) if (sk->got[i].msg != QString("c%1").arg(i)) { FAIL("C04: cycle delivery order/duplication at %d: '%s'", i, qPrintable(sk->got[i].msg)); break; }
    }
    {   // a sink that logs through the same handler while the last message is being delivered, stop arriving meanwhile
        struct Nest : Sink { OwnThreadHandler<SimplePipeline> *h = nullptr; std::vector<QString> got; void send(const LogMessage &l) override { got.push_back(l.message());
            if (l.message() == "A") { QThread::msleep(300); QMessageLogContext c("f", 1, "fn", "cat"); LogMessage m(QtDebugMsg, c, "B"); h->process(m); } } };
        auto *a = new OwnThreadHandler<SimplePipeline>; auto sk = QSharedPointer<Nest>::create(); sk->h = a; a->append(sk); a->moveToOwnThread();
        QMessageLogContext c("f", 1, "fn", "cat"); LogMessage m(QtDebugMsg, c, "A"); a->process(m); QThread::msleep(100);
        std::atomic<bool> done{false}; std::thread st([&]() { a->resetOwnThread(); done = true; });
        for (int i = 0; i < 100 && !done; ++i) QThread::msleep(100);
        if (!done) { FAIL("C04: resetOwnThread() has not returned 10 s after the stop (sink logging through the same handler during the last delivery)"); st.detach(); }
        else { st.join(); if (sk->got.size() != 2) FAIL("C04: nested message lost on stop (%d delivered)", (int)sk->got.size()); delete a; }
    }
}
int main(int argc, char **argv) { QCoreApplication app(argc, argv); std::string p = argv[1];
    if (p == "C02") c02(); if (p == "C03") c03(app); if (p == "C04") c04(app);
    printf("%d failing scenario(s) for %s\n", failures, p.c_str()); fflush(stdout); _exit(failures ? 1 : 0); }
'''

def replay(prop, rec, workdir):
    try:
        exe = common.build_driver(workdir, 'thread_replay', DRIVER, sanitize=False)
    except Exception as e:
        return False, 'replay build failed: %s' % e
    try:
        rc, out = common.run(exe, [prop], timeout=240)
    except Exception as e:
        return False, 'replay run failed: %r' % e
    return rc == 1, 'native replay (stress/scenario runs on the real classes; OS schedules only: can show a violation, never its absence):\n' + out[-3000:]
