"""Unit builder and proof runner: sidecar + lowered real code -> goto-cc -> goto-instrument --dfcc -> cbmc.

A sidecar (contracts/<id>/<unit>.spec.c) carries directives in //@ comments:
  //@ tus <tu> ...            translation units to index (relative to src/qtlogger, or verif:<file>)
  //@ lower <Qualified::name>[#<sigsuffix>] ...   real functions whose lowered bodies go into the unit
  //@ structs <Qualified::Record> ...            record layouts to emit although no lowered function needs them
  //@ loopbody <c_function> <k>                   emit the body of the k-th loop (a while loop) of that lowered function as a function
                                                  <c_function>_loop<k>_body (and its guard) so that a step contract can be enforced on it
  //@ enforce <c_function> [key=value ...]        one proof: contract of that lowered function is enforced
  //@ lemma <c_function> [key=value ...]          one proof: harness written in the sidecar (no enforce)
  //@ ---                                         separator: part 1 (models) / part 2 (contracts)
Options per proof: unwind=N (bounded stand-in, reported apart), solver=cvc5|z3|sat, timeout=S, inline=<fn,...>
"""
import json, os, re, shutil, subprocess, sys, time, hashlib
from concurrent.futures import ThreadPoolExecutor
from . import cxxast, lower

VERIF = cxxast.VERIF
BUILD = os.environ.get('VERIF_BUILD', os.path.join(VERIF, 'build'))

class Undecided(Exception):
    pass

class Proof:
    def __init__(self, kind, target, opts):
        self.kind = kind; self.target = target; self.opts = opts
        self.harness = 'h_' + target if kind == 'enforce' else target
        self.results = []; self.status = None; self.seconds = 0.0; self.reason = ''
        self.canary_ok = None; self.cmds = []; self.replaced = []; self.log = ''; self.reach_bodies = []
    @property
    def bounded(self): return 'unwind' in self.opts or 'fallback_unwind' in self.opts
    @property
    def name(self): return self.target

class Unit:
    def __init__(self, prop, path):
        self.prop = prop; self.path = path
        self.name = os.path.basename(path).replace('.spec.c', '')
        self.tus = []; self.lower = []; self.proofs = []; self.structs = []; self.loopbodies = set()
        self.part1 = ''; self.part2 = ''
        self.parse()
        self.dir = os.path.join(BUILD, prop, self.name)
        self.fninfos = {}; self.lits = {}; self.extern = {}
        self.rules = {}; self.auto_lowered = []; self.auto_failed = {}; self.vanished = []

    def parse(self):
        part = 1; l1 = []; l2 = []
        self.p2_line = 1
        for ln, line in enumerate(open(self.path), 1):
            m = re.match(r'\s*//@\s*(\S+)\s*(.*)$', line)
            if m:
                d, rest = m.group(1), m.group(2).strip()
                if d == 'tus': self.tus += rest.split()
                elif d == 'lower': self.lower += rest.split()
                elif d == 'structs': self.structs += rest.split()
                elif d == 'loopbody':
                    a = rest.split(); self.loopbodies.add((a[0], a[1]))
                elif d in ('enforce', 'lemma'):
                    parts = rest.split()
                    opts = dict(p.split('=', 1) for p in parts[1:])
                    self.proofs.append(Proof(d, parts[0], opts))
                elif d == '---':
                    part = 2; self.p2_line = ln + 1
                else:
                    raise Undecided('unknown directive %s in %s' % (d, self.path))
                line = '\n'
            (l1 if part == 1 else l2).append(line)
        self.part1 = ''.join(l1); self.part2 = ''.join(l2)

    @staticmethod
    def overriders(ix, f):
        def is_virtual(n):
            return bool(n.get('virtual')) or any(c.get('kind') == 'OverrideAttr' for c in n.get('inner', []))
        if f.get('kind') != 'CXXMethodDecl': return []
        decl = ix.decl_by_id.get(f.get('previousDecl'), f)
        if not (is_virtual(f) or is_virtual(decl)): return []
        name = f.get('name'); scope = f.get('_scope', '')
        out = []
        for q, lst in ix.functions.items():
            if q.split('::')[-1] != name or q == scope + '::' + name: continue
            for g in lst:
                if g.get('kind') == 'CXXMethodDecl' and (is_virtual(g) or is_virtual(ix.decl_by_id.get(g.get('previousDecl'), g))):
                    if len(g.get('inner', [])) >= 0 and sum(1 for c in g.get('inner', []) if c.get('kind') == 'ParmVarDecl') == sum(1 for c in f.get('inner', []) if c.get('kind') == 'ParmVarDecl'):
                        out.append(q)
        return sorted(set(out))

    def side_text(self):
        """the sidecar plus every contracts/ and models/ header it includes, transitively"""
        text = self.part1 + self.part2; seen = set(); todo = re.findall(r'#\s*include\s+"((?:contracts|models)/[^"]+)"', text)
        while todo:
            inc = todo.pop()
            if inc in seen: continue
            seen.add(inc)
            try: t = open(os.path.join(VERIF, inc)).read()
            except OSError: continue
            text += t; todo += re.findall(r'#\s*include\s+"((?:contracts|models)/[^"]+)"', t)
        return text

    # ------------------------------------------------------------------ build unit.c
    def build(self, index_cache):
        os.makedirs(self.dir, exist_ok=True)
        key = tuple(self.tus)
        if key not in index_cache:
            index_cache[key] = cxxast.Index(self.tus)
        ix = index_cache[key]
        L = lower.Lowerer(ix)
        L.find_ifs = []; L.lambda_names = set(); L.loopbody_requests = set(self.loopbodies)
        order = []
        for spec in self.lower:
            q, _, sig = spec.partition('#')
            cands = ix.functions.get(q)
            if not cands:
                # a helper that the code no longer has (inlined / merged by an edit): nothing calls it any more, whatever replaced it is lowered
                # on demand from its callers.  Only a function that a proof is ABOUT (enforce target) must exist.
                qc = lower.mangle_core(q)
                if any(p.kind == 'enforce' and (p.target == qc or p.target.startswith(qc + '__')) for p in self.proofs):
                    raise Undecided('function %s not found in %s (renamed or removed?)' % (q, ' '.join(self.tus)))
                self.vanished.append(q); continue
            if sig:
                wantc = sig.endswith('__const')
                if wantc: sig = sig[:-7]
                cands = [f for f in cands if L.sig_suffix(f) == sig and (L.is_const_method(f) == wantc or len([g for g in cands if L.sig_suffix(g) == sig]) == 1)]
                if not cands: raise Undecided('no overload %s of %s' % (sig, q))
            elif len(cands) > 1:
                cands = [f for f in cands if any(c.get('kind') == 'CompoundStmt' for c in f.get('inner', []))]
                if len(cands) != 1:
                    raise Undecided('%s is overloaded: give #<signature suffix> (%s)' % (q, ', '.join(L.sig_suffix(f) for f in cands)))
            try:
                info = L.lower_function(cands[0])
            except lower.Unsupported as e:
                raise Undecided('lowering of %s: %s' % (q, e))
            order.append(info.cname)
        for q in self.structs:
            if q not in ix.rec_by_name: raise Undecided('record %s not found' % q)
            L.need_struct(q)
        # repo callees that are neither listed nor given a contract/stub in the sidecar are lowered on
        # demand (CBMC then sees their real body), so an edit that starts using another small helper
        # of the library stays decidable
        side = self.side_text()      # contracts given in shared headers count too
        cmap = None
        progress = True
        while progress:
            progress = False
            for fi in list(L.fns.values()):
                for callee in sorted(fi.callees):
                    if callee in L.fns or callee in L.extern_calls: continue
                    if re.search(r'\b%s\s*\(' % re.escape(callee), side): continue
                    if cmap is None:
                        cmap = {}
                        for q, lst in ix.functions.items():
                            for f in lst:
                                try: cmap.setdefault(L.fn_cname(f), f)
                                except Exception: pass
                    f = cmap.get(callee)
                    if f is None or not any(c.get('kind') in ('CompoundStmt', 'CXXCtorInitializer') for c in f.get('inner', [])): continue
                    ov = self.overriders(ix, f)
                    if ov:
                        # a virtual method with overriders: the base body is NOT what a call through a base pointer runs
                        raise Undecided('virtual call %s: overridden by %s; the sidecar must give a dispatch contract (or list the function under //@ lower if the call is non-virtual)' % (callee, ', '.join(ov)))
                    try:
                        L.lower_function(f); progress = True
                        self.auto_lowered.append(callee)
                    except lower.Unsupported as e:
                        L.fns.pop(callee, None)
                        self.auto_failed[callee] = str(e)
        self.fninfos = L.fns; self.lits = L.lits; self.extern = L.extern_calls
        for fi in L.fns.values():
            for r, c in fi.rules.items(): self.rules[r] = self.rules.get(r, 0) + c
        out = []
        out.append('/* GENERATED on every run from /repo by vf.lower -- never edited, never stored in git */\n')
        out.append('typedef int BOOL;\n')
        for q in ix.rec_by_name:
            out.append('typedef struct %s %s;\n' % (lower.mangle_core(q), lower.mangle_core(q)))
        for q in ix.enums:
            en = lower.mangle_core(q)
            if not q or q.endswith('::') or not (ix.enums[q].get('name') or '') or lower.mangle_core(q) in [lower.mangle_core(r) for r in ix.rec_by_name]: continue     # anonymous enum: constants only
            if not en or en in ('Handler_HandlerType',) or re.search(r'\b%s\s*;' % re.escape(en), side): continue
            out.append('typedef int %s;   /* repo enum */\n' % en)
        if self.lits:
            out.append('enum {\n' + ''.join('    %s = %d, /* %s */\n' % (k, v[0], repr(v[1][:60]).replace('*/', '*\\/').replace('/*', '/\\*')) for k, v in sorted(self.lits.items())) + '};\n')
            # text-based aliases (LITX_<sanitised text>) where the sanitised text is unambiguous, so sidecars need not spell the hash
            al = {}
            for k, v in self.lits.items():
                a = 'LITX_' + re.sub(r'[^A-Za-z0-9]', '_', v[1])[:48]
                al.setdefault(a, []).append(k)
            for a, ks in sorted(al.items()):
                if len(ks) == 1 and a != ks[0]: out.append('#define %s %s\n' % (a, ks[0]))
        # literals a sidecar names but the current code no longer contains (an edited / removed literal): a fallback identity that no
        # string of the code carries, so the unit still compiles and the contract clause about that literal simply fails to hold
        used = set(re.findall(r'\b(LITX?_\w+)\b', side)) - set(self.lits)
        defined_alias = set(a for a in re.findall(r'#define (LITX_\w+) ', ''.join(out)))
        import zlib as _z
        for nm in sorted(used - defined_alias):
            if re.search(r'#\s*define\s+%s\b' % re.escape(nm), side): continue
            out.append('#ifndef %s\n#define %s (-%d) /* literal not present in the current code */\n#endif\n' % (nm, nm, 100000 + (_z.crc32(nm.encode()) & 0xffffff)))
        out.append('#line 1 "%s"\n' % self.path)
        out.append(self.part1)
        out.append('#line 1 "generated-structs"\n')
        for q in L.structs_needed:
            out.append(L.struct_text(q))
        for cname, fi in L.fns.items():
            out.append(fi.proto + ';\n')
        # shape facts of the lowered code, so that a sidecar loop contract applies only to the loop it was written for
        # (#if defined(LOOPKIND_<fn>_<k>_<kind>) && defined(HASVAR_<fn>_<name>)); otherwise the loop falls back to the
        # default havoc abstraction and counts as un-annotated
        for cname, fi in L.fns.items():
            for lp in fi.loops:
                kind = re.sub(r'[^a-z]', '_', lp['kind'].split(' ')[0].lower())
                out.append('#define LOOPKIND_%s_%d_%s 1\n' % (cname, lp['ordinal'], kind))
            for v in sorted(fi.locals):
                if re.fullmatch(r'[A-Za-z_][A-Za-z0-9_]*', v): out.append('#define HASVAR_%s_%s 1\n' % (cname, v))
        if getattr(L, 'lambda_ids', None):
            out.append('enum { ' + ', '.join('LAMBDA_%s = %d' % (nm, i + 1) for i, nm in enumerate(L.lambda_ids)) + ' };\n')
        out.append('#line %d "%s"\n' % (self.p2_line, self.path))
        out.append(self.part2)
        out.append('#line 1 "generated-code"\n')
        # Qt/STL spell some accessors several ways (cbegin/constBegin/begin() const, count/length/size, ...): when the code uses a
        # spelling the sidecar's models do not define but an equivalent spelling IS defined, the equivalent model stands for it
        self.aliases = []
        for e in sorted(L.extern_calls):
            if re.search(r'\b%s\s*\(' % re.escape(e), side): continue
            done = False
            for group in EQUIVALENT_METHODS:
                for suf in group:
                    if not e.endswith('_' + suf): continue
                    for alt in group:
                        cand = e[:-len(suf)] + alt
                        if cand != e and re.search(r'\b%s\s*\(' % re.escape(cand), side):
                            out.append('#define %s %s   /* equivalent Qt/STL spelling */\n' % (e, cand)); self.aliases.append((e, cand)); done = True; break
                    if done: break
                if done: break
        out.append('#ifndef VERIF_NEW\n/* new T: a fresh heap object; operator new never returns null (allocation failure is outside the model) */\n'
                   '#define VERIF_NEW(T) ({ T *_p = (T *)malloc(sizeof(T)); __CPROVER_assume(_p != 0); _p; })\n#endif\n')
        for nm in sorted(getattr(L, 'array_reads', ())):
            out.append('#ifndef ARR_RD_%s\n#define ARR_RD_%s(a, i) ((a)[i])\n#endif\n' % (nm, nm))
        loops = []
        for cname, fi in L.fns.items():
            for lp in fi.loops:
                mac = 'LOOP_%s_%d' % (cname, lp['ordinal'])
                out.append('#ifndef %s\n#define %s __CPROVER_loop_invariant(1 == 1) /* default: no loop contract in the sidecar -> havoc abstraction */\n#endif\n' % (mac, mac))
                # a loop contract of the sidecar that names a local the code no longer has (see build(): test compilation) is dropped
                out.append('#ifdef VERIF_DROP_LOOPS_%s\n#undef %s\n#define %s __CPROVER_loop_invariant(1 == 1)\n#endif\n' % (cname, mac, mac))
                # bounded fallback (report.py): all loops of the unit WITHOUT contracts, unwound a fixed number of times instead
                out.append('#ifdef VERIF_NO_LOOP_CONTRACTS\n#undef %s\n#define %s\n#endif\n' % (mac, mac))
        out += [s + '\n' for s in L.static_locals]
        lambdas = [fi for fi in L.fns.values() if fi.cname.startswith('lambda_')]
        for fi in lambdas: out.append(fi.text + '\n')
        finds = [fi for fi in L.fns.values() if getattr(fi, 'is_find_if', False)]
        for fi in finds: out.append(fi.text + '\n')
        for cname, fi in L.fns.items():
            if fi in lambdas or fi in finds: continue
            out.append(fi.text + '\n')
        # harnesses for enforce proofs
        for p in self.proofs:
            if p.kind == 'enforce':
                fi = L.fns.get(p.target)
                if fi is None and re.match(r'^(find_if_lambda_|sort_lambda_|lambda_)', p.target):
                    # a helper the lowering derives from the code (a lambda, the predicate loop of a std::find_if): the code no longer
                    # contains it, so there is nothing to prove about it; whatever replaced it is part of the function that contained it
                    p.vanished = True; self.vanished.append(p.target); continue
                if fi is None:
                    raise Undecided('enforce target %s is not among the lowered functions (%s)' % (p.target, ', '.join(L.fns)))
                out.append(self.harness_text(p, fi))
        text = ''.join(out)
        self.loop_fns = {c: fi for c, fi in L.fns.items() if fi.loops}
        self.unit_c = os.path.join(self.dir, 'unit.c')
        open(self.unit_c, 'w').write(text)
        # test compilation: a loop contract that names a local variable the code no longer has (renamed / removed by an edit) would stop
        # EVERY proof of the unit at goto-cc; such a contract no longer applies -> that function's loop contracts are dropped (its loops
        # then count as un-annotated: failures behind them are settled by replay / the bounded stand-in, never reported by themselves)
        self.dropped_fns = []
        for _ in range(6):
            cc = ['goto-cc', '-I', VERIF, '-DVERIF_CBMC'] + ['-DVERIF_DROP_LOOPS_' + f for f in self.dropped_fns] + [self.unit_c, '-o', os.path.join(self.dir, 'probe.gb')]
            r = subprocess.run(cc, capture_output=True, text=True)
            if r.returncode == 0: break
            err = r.stderr + r.stdout
            m = re.search(r"In function '(\w+)':\n[^\n]*error: failed to find symbol '(\w+)'", err)
            if not m or m.group(1) not in self.loop_fns or m.group(1) in self.dropped_fns: break
            self.dropped_fns.append(m.group(1))
        json.dump({'functions': {c: {'qname': fi.qname, 'file': fi.file, 'line': fi.line, 'loops': fi.loops,
                                      'callees': sorted(fi.callees), 'rules': fi.rules} for c, fi in L.fns.items()},
                   'external_callees': sorted(self.extern), 'literals': {k: v[1] for k, v in self.lits.items()}},
                  open(os.path.join(self.dir, 'lowering.json'), 'w'), indent=1)
        return text

    _dl = None
    def default_loops(self):
        """loop slots that ended up with the default havoc invariant in the built unit (found by preprocessing unit.c)"""
        if self._dl is None:
            self._dl = set()
            r = subprocess.run(['gcc', '-E', '-P', '-I', VERIF, '-DVERIF_CBMC', '-DVERIF_PROBE_LOOPS', self.unit_c], capture_output=True, text=True)
            txt = open(self.unit_c).read()
            for m in re.finditer(r'#ifndef (LOOP_\w+)\n#define \1 __CPROVER_loop_invariant\(1 == 1\)', txt):
                mac = m.group(1)
                # the default applies iff the sidecar did not define the macro before this point: test with a probe
                probe = subprocess.run(['gcc', '-E', '-P', '-I', VERIF, '-DVERIF_CBMC', '-x', 'c', '-'], input=txt[:m.start()] + '\n#ifdef %s\nVF_HAS_CONTRACT\n#else\nVF_DEFAULT\n#endif\n' % mac,
                                       capture_output=True, text=True)
                if 'VF_DEFAULT' in probe.stdout: self._dl.add(mac)
        return self._dl

    def unannotated_loops(self, p):
        """loops (of functions whose BODY is part of proof p) that have no loop contract in the sidecar: they are
        abstracted by havoc (invariant 1==1); a failure downstream of one may be an artefact of that abstraction"""
        side = self.side_text()      # contracts given in shared headers count too
        out = []
        for c in [p.target] + list(p.reach_bodies):
            fi = self.fninfos.get(c)
            if not fi: continue
            for lp in fi.loops:
                mac = 'LOOP_%s_%d' % (c, lp['ordinal'])
                if (mac in self.default_loops() or c in getattr(self, 'dropped_fns', [])) and mac not in out:
                    out.append(mac)
        return out

    def harness_text(self, p, fi):
        m = re.match(r'^(.*?)\s*\b(\w+)\((.*)\)$', fi.proto, re.S)
        ret, name, params = m.group(1), m.group(2), m.group(3)
        decls = []; args = []
        if params.strip() != 'void':
            for i, prm in enumerate(split_params(params)):
                pm = re.match(r'^(.*?)(\w+)$', prm.strip(), re.S)
                decls.append('    %s a%d;\n' % (pm.group(1).strip(), i)); args.append('a%d' % i)
        return ('void %s(void)\n{\n%s    %s(%s);\n#ifdef CANARY\n    __CPROVER_assert(0, "canary: end of %s reachable");\n#endif\n}\n'
                % (p.harness, ''.join(decls), name, ', '.join(args), name))

    # ------------------------------------------------------------------ run one proof
    def run_proof(self, p, canary=False):
        tag = p.harness + ('.canary' if canary else '')
        gb1 = os.path.join(self.dir, tag + '.1.gb'); gb2 = os.path.join(self.dir, tag + '.2.gb')
        cc = ['goto-cc', '--function', p.harness, '-I', VERIF, '-DVERIF_CBMC', self.unit_c, '-o', gb1]
        if canary: cc.insert(1, '-DCANARY')
        for d in p.opts.get('define', '').split(','):
            if d: cc.insert(1, '-D' + d)
        fb = p.opts.get('fallback_unwind')
        if fb: cc.insert(1, '-DVERIF_NO_LOOP_CONTRACTS')
        for f in getattr(self, 'dropped_fns', []): cc.insert(1, '-DVERIF_DROP_LOOPS_' + f)
        r = subprocess.run(cc, capture_output=True, text=True)
        log = '$ ' + ' '.join(cc) + '\n' + r.stdout + r.stderr
        if r.returncode != 0:
            return 'UNDECIDED', 'goto-cc failed: ' + first_error(r.stderr + r.stdout), [], log, 0.0
        undeclared = re.findall(r'function [\'`"]?(\w+)[\'`"]? is not declared', r.stderr + r.stdout)
        if undeclared:
            return 'UNDECIDED', 'no model or lowered body for callee(s): ' + ', '.join(sorted(set(undeclared))), [], log, 0.0
        # which contracts exist, which functions are reachable
        contracts, bodies = symbols(gb1)
        inl = set(x for x in p.opts.get('inline', '').split(',') if x)
        reach = reachable(gb1, p.harness, contracts - {p.target} - inl)
        replace = sorted(c for c in contracts if c in reach and c != p.target and c not in inl)
        missing = sorted(f for f in reach if f not in bodies and f not in contracts and not f.startswith('__CPROVER') and f not in BUILTIN_OK)
        if missing:
            return 'UNDECIDED', 'callee(s) with neither body nor contract: ' + ', '.join(missing), [], log, 0.0
        if fb:
            # bounded stand-in: no loop contract is applied; every loop is unwound fb times BEFORE the contract instrumentation and
            # executions that need more iterations are cut off by an assumption (no unwinding assertion): an under-approximation
            gbu = os.path.join(self.dir, tag + '.u.gb')
            ru = subprocess.run(['goto-instrument', '--unwind', str(fb), '--no-unwinding-assertions', gb1, gbu], capture_output=True, text=True)
            log += '$ goto-instrument --unwind %s\n' % fb + ru.stdout[-1500:] + ru.stderr[-1500:]
            if ru.returncode != 0:
                return 'UNDECIDED', 'goto-instrument --unwind failed: ' + first_error(ru.stderr + ru.stdout), [], log, 0.0
            gb1 = gbu
        gi = ['goto-instrument', '--dfcc', p.harness]
        if p.kind == 'enforce': gi += ['--enforce-contract-rec' if p.opts.get('rec') == '1' else '--enforce-contract', p.target]
        for c in replace: gi += ['--replace-call-with-contract', c]
        gi += ([] if fb else ['--apply-loop-contracts']) + [gb1, gb2]
        if not canary:
            p.replaced = replace
            p.reach_bodies = sorted(f for f in reach if f in bodies and f not in replace)
        r = subprocess.run(gi, capture_output=True, text=True)
        log += '$ ' + ' '.join(gi) + '\n' + r.stdout[-4000:] + r.stderr[-4000:]
        if r.returncode != 0:
            return 'UNDECIDED', 'goto-instrument failed: ' + first_error(r.stderr + r.stdout), [], log, 0.0
        solver = p.opts.get('solver', 'cadical')
        cb = ['cbmc', gb2, '--object-bits', p.opts.get('objbits', '12'), '--bounds-check', '--pointer-check', '--signed-overflow-check',
              '--conversion-check', '--div-by-zero-check', '--undefined-shift-check', '--json-ui', '--verbosity', '4']
        if p.opts.get('unsigned-overflow') == '1': cb.append('--unsigned-overflow-check')
        if p.opts.get('conversion') == 'off': cb.remove('--conversion-check')       # implementation-defined narrowing is not UB; stated per proof
        if 'unwind' in p.opts: cb += ['--unwind', p.opts['unwind'], '--unwinding-assertions']
        if solver == 'cadical': cb += ['--sat-solver', 'cadical']
        elif solver == 'cvc5': cb.append('--cvc5')
        elif solver == 'z3': cb.append('--z3')
        elif solver == 'kissat': cb += ['--external-sat-solver', 'kissat']
        if canary and p.opts.get('fastcanary') == '1':
            # vacuity run restricted to the canary assertion itself (cbmc --property): same question (is the end reachable under the
            # requires / invariants / callee contracts?), without re-deciding every other obligation
            sp = subprocess.run(['cbmc', gb2, '--show-properties', '--json-ui'], capture_output=True, text=True)
            try:
                names = [q['name'] for m in json.loads(sp.stdout) if 'properties' in m for q in m['properties'] if 'canary' in q.get('description', '')]
            except Exception:
                names = []
            for nm in names: cb += ['--property', nm]
        if not canary: p.cmds = [' '.join(cc), ' '.join(gi), ' '.join(cb)]
        tmo = int(p.opts.get('timeout', '600'))
        t0 = time.time()
        try:
            r = subprocess.run(['bash', '-c', 'ulimit -v 12000000; exec "$@"', '_'] + cb, capture_output=True, text=True, timeout=tmo)
        except subprocess.TimeoutExpired:
            return 'UNDECIDED', 'cbmc timeout after %ds' % tmo, [], log, time.time() - t0
        dt = time.time() - t0
        open(os.path.join(self.dir, tag + '.cbmc.json'), 'w').write(r.stdout)
        try:
            msgs = json.loads(r.stdout)
        except Exception:
            # CBMC 6.11's JSON printer aborts on some large expressions: same run in text mode, results parsed from the text
            cbt = [x for x in cb if x not in ('--json-ui',)]
            try:
                r2 = subprocess.run(['bash', '-c', 'ulimit -v 12000000; exec "$@"', '_'] + cbt, capture_output=True, text=True, timeout=tmo)
            except subprocess.TimeoutExpired:
                return 'UNDECIDED', 'cbmc timeout after %ds (text mode)' % tmo, [], log, time.time() - t0
            dt = time.time() - t0
            open(os.path.join(self.dir, tag + '.cbmc.txt'), 'w').write(r2.stdout)
            results = parse_text_results(r2.stdout)
            if results is None or 'VERIFICATION' not in r2.stdout:
                return 'UNDECIDED', 'cbmc output not JSON and text mode gave no result (crash / out of memory): ' + (r2.stdout[-300:] + r2.stderr[-300:]).replace('\n', ' '), [], log, dt
            return 'DONE', '', results, log, dt
        results = None; errs = []
        for m in msgs:
            if 'result' in m: results = m['result']
            if m.get('messageType') == 'ERROR': errs.append(m.get('messageText', ''))
            if m.get('messageType') == 'WARNING' and 'ignoring' in m.get('messageText', ''):
                errs.append('quantifier dropped: ' + m.get('messageText', ''))
        if results is None:
            return 'UNDECIDED', 'cbmc produced no result: ' + '; '.join(errs)[:400], [], log, dt
        if any('quantifier dropped' in e for e in errs):
            return 'UNDECIDED', errs[0], results, log, dt
        return 'DONE', '', results, log, dt

    def prove(self, p):
        st, reason, results, log, dt = self.run_proof(p)
        p.log = log; p.seconds = dt; p.results = results
        if st != 'DONE':
            p.status = 'UNDECIDED'; p.reason = reason; return p
        failed = [r for r in results if r['status'] != 'SUCCESS']
        # CBMC's own "undefined function" guard -> undecided, not a violation
        for r in failed:
            d = r.get('description', '')
            if 'undefined function' in d or 'no body' in d:
                p.status = 'UNDECIDED'; p.reason = 'call of a function without body or contract: ' + d; return p
        p.status = 'FAILED' if failed else 'PROVED'
        if not failed and p.opts.get('canary', '1') != '0':
            st, reason, cres, clog, cdt = self.run_proof(p, canary=True)
            p.seconds += cdt
            if st != 'DONE':
                p.status = 'UNDECIDED'; p.reason = 'canary run: ' + reason; return p
            can = [r for r in cres if 'canary' in r.get('description', '')]
            p.canary_ok = bool(can) and all(r['status'] == 'FAILURE' for r in can)
            if not p.canary_ok:
                p.status = 'UNDECIDED'
                p.reason = 'vacuity guard: the end of %s is not reachable under its requires/invariants (contradictory contract?)' % p.target
        return p

def parse_text_results(txt):
    """'[name] line N description: STATUS' lines under 'file function' headers of cbmc's text output -> result records"""
    res = []; cur_file = None; cur_fn = None; seen = False
    for line in txt.splitlines():
        m = re.match(r'^(\S.*) function (\S+)$', line)
        if m and not line.startswith('['): cur_file, cur_fn = m.group(1), m.group(2); continue
        m = re.match(r'^\[([^\]]+)\] (?:line (\d+) )?(.*): (SUCCESS|FAILURE|UNKNOWN|ERROR)$', line)
        if m:
            seen = True
            res.append({'property': m.group(1), 'description': m.group(3), 'status': m.group(4),
                        'sourceLocation': {'file': cur_file, 'line': m.group(2), 'function': cur_fn}})
    return res if seen else None

EQUIVALENT_METHODS = [
    ['begin_const', 'cbegin_const', 'constBegin_const'], ['end_const', 'cend_const', 'constEnd_const'],
    ['rbegin_const', 'crbegin_const'], ['rend_const', 'crend_const'],
    ['size', 'count', 'length'], ['first', 'constFirst', 'front'], ['last', 'constLast', 'back'],
    ['append', 'push_back'], ['prepend', 'push_front'], ['removeFirst', 'pop_front'], ['removeLast', 'pop_back'],
]
BUILTIN_OK = {'malloc', 'free', 'memcpy', 'memset', 'abort', 'exit'}

def split_params(s):
    out = []; d = 0; cur = ''
    for ch in s:
        if ch == ',' and d == 0: out.append(cur); cur = ''
        else:
            if ch in '([': d += 1
            if ch in ')]': d -= 1
            cur += ch
    if cur.strip(): out.append(cur)
    return out

def first_error(t):
    for line in t.splitlines():
        if 'error' in line.lower() or 'invariant' in line.lower(): return line.strip()[:300]
    return t.strip().splitlines()[-1][:300] if t.strip() else '?'

def symbols(gb):
    """-> (set of functions that have a contract, set of functions that have a body)"""
    r = subprocess.run(['goto-instrument', '--show-symbol-table', gb], capture_output=True, text=True)
    contracts = set(re.findall(r'^Symbol\.*: contract::(\w+)$', r.stdout, re.M))
    r2 = subprocess.run(['goto-instrument', '--list-goto-functions', gb], capture_output=True, text=True)
    bodies = set()
    r3 = subprocess.run(['goto-instrument', '--list-undefined-functions', gb], capture_output=True, text=True)
    undefined = set(l.strip() for l in r3.stdout.splitlines() if re.fullmatch(r'\s*\w+\s*', l))
    allf = set(re.findall(r'^(\w+) /\* ', subprocess.run(['goto-instrument', '--show-goto-functions', gb], capture_output=True, text=True).stdout, re.M))
    bodies = allf - undefined
    return contracts, bodies

def reachable(gb, entry, stop=()):
    r = subprocess.run(['goto-instrument', '--call-graph', gb], capture_output=True, text=True)
    edges = {}
    for a, b in re.findall(r'^(\w+) -> (\w+)$', r.stdout, re.M):
        edges.setdefault(a, set()).add(b)
    seen = set(); todo = [entry]
    while todo:
        f = todo.pop()
        for g in edges.get(f, ()):
            if g not in seen:
                seen.add(g)
                if g not in stop: todo.append(g)
    return seen
