"""clang JSON AST of the real translation units: dump (cached by content hash), load, index.

The AST is produced by clang++-14 from /repo's current working tree on every run; the cache key is
the hash of every file under src/qtlogger plus the flags, so an edited tree is always re-dumped."""
import hashlib, json, os, subprocess, sys

REPO = os.environ.get('VERIF_REPO', '/repo')
SRC = os.path.join(REPO, 'src', 'qtlogger')
VERIF = os.path.dirname(os.path.dirname(os.path.abspath(__file__)))
CACHE = os.path.join(os.environ.get('VERIF_BUILD', os.path.join(VERIF, 'build')), 'astcache')
FLAGS = ['-std=gnu++17', '-fPIC', '-fsyntax-only', '-w',
         '-I/usr/include/x86_64-linux-gnu/qt5', '-I/usr/include/x86_64-linux-gnu/qt5/QtCore',
         '-DQTLOGGER_LIBRARY', '-DQTLOGGER_STATIC', '-DQTLOGGER_SYSLOG', '-DQT_CORE_LIB',
         '-DQT_NO_DEBUG', '-DNDEBUG', '-I' + SRC,
         '-Xclang', '-ast-dump=json', '-Xclang', '-ast-dump-filter=QtLogger::']

_tree_hash = None
def tree_hash():
    global _tree_hash
    if _tree_hash is None:
        h = hashlib.sha256(' '.join(FLAGS).encode())
        for root, dirs, files in sorted(os.walk(SRC)):
            dirs.sort()
            for f in sorted(files):
                p = os.path.join(root, f)
                h.update(p.encode()); h.update(open(p, 'rb').read())
        for f in sorted(os.listdir(os.path.join(VERIF, 'tus'))) if os.path.isdir(os.path.join(VERIF, 'tus')) else []:
            h.update(open(os.path.join(VERIF, 'tus', f), 'rb').read())
        _tree_hash = h.hexdigest()[:20]
    return _tree_hash

def tu_path(tu):
    """tu is a path relative to src/qtlogger, or 'verif:<name>' for an instantiation TU in /verif/tus."""
    if tu.startswith('verif:'):
        return os.path.join(VERIF, 'tus', tu[6:])
    return os.path.join(SRC, tu)

def dump(tu):
    os.makedirs(CACHE, exist_ok=True)
    key = tree_hash() + '_' + tu.replace('/', '_').replace(':', '_')
    out = os.path.join(CACHE, key + '.json')
    if not os.path.exists(out):
        tmp = out + '.tmp%d' % os.getpid()
        with open(tmp, 'wb') as f, open(out + '.err', 'wb') as e:
            r = subprocess.run(['clang++-14'] + FLAGS + [tu_path(tu)], stdout=f, stderr=e)
        # clang reports one known error in TUs including ownthreadhandler.h (see DESIGN 2.1);
        # functions whose subtree contains error nodes are refused by the lowering.
        os.replace(tmp, out)
    return out

def load(tu):
    s = open(dump(tu)).read()
    dec = json.JSONDecoder(); i = 0; objs = []
    while True:
        i = s.find('{', i)
        if i < 0: break
        o, j = dec.raw_decode(s, i); objs.append(o); i = j
    st = {'file': None, 'line': None}
    for o in objs: _fill_locs(o, st)
    return objs

def _fill_locs(n, st):
    """clang elides file/line when equal to the previously printed location; restore them
    (document order: loc, range.begin, range.end, then children)."""
    if isinstance(n, dict):
        if 'offset' in n and 'col' in n:
            if 'file' in n: st['file'] = n['file']
            else: n['file'] = st['file']
            if 'line' in n: st['line'] = n['line']
            else: n['line'] = st['line']
        for k, v in n.items():
            if isinstance(v, (dict, list)): _fill_locs(v, st)
    elif isinstance(n, list):
        for v in n: _fill_locs(v, st)

def prune_cache():
    if not os.path.isdir(CACHE): return
    th = tree_hash()
    for f in os.listdir(CACHE):
        if not f.startswith(th):
            os.unlink(os.path.join(CACHE, f))

FN_KINDS = ('CXXMethodDecl', 'FunctionDecl', 'CXXConstructorDecl', 'CXXDestructorDecl', 'CXXConversionDecl')

class Index:
    """All QtLogger:: declarations of a set of TUs: records by id and by name, functions with bodies."""
    def __init__(self, tus):
        self.records = {}      # id -> record node
        self.rec_qname = {}    # id -> qualified name (Outer::Inner)
        self.rec_by_name = {}  # qualified name -> record node (the definition)
        self.functions = {}    # qualified name -> list of function nodes with body
        self.enums = {}        # qualified name -> EnumDecl
        self.enum_consts = {}  # EnumConstantDecl id -> integer value (enums defined in namespace QtLogger)
        self.vars = {}         # name -> VarDecl at namespace scope
        self.fn_by_id = {}
        self.decl_by_id = {}   # every function declaration node by its own id (default arguments live there)
        self.fields = {}       # FieldDecl id -> node
        self.aliases = {}      # type alias name -> desugared text
        self.tu_of = {}
        for tu in tus:
            for o in load(tu):
                self._walk(o, '', tu, top=True)
        # second pass: out-of-line definitions
        for tu, o in self._pending:
            self._add_fn(o, tu)
    _pending = None
    def _walk(self, o, scope, tu, top=False):
        if self._pending is None: self._pending = []
        k = o.get('kind')
        if k in ('CXXRecordDecl', 'ClassTemplateSpecializationDecl'):
            if o.get('completeDefinition') or any(c.get('kind') in ('FieldDecl', 'CXXMethodDecl') for c in o.get('inner', [])):
                name = o.get('name') or '(anon)'
                if k == 'ClassTemplateSpecializationDecl':
                    name = name + '<' + ','.join(self._targ(a) for a in o.get('inner', []) if a.get('kind') == 'TemplateArgument') + '>'
                pid = o.get('parentDeclContextId')
                if top and pid in self.rec_qname:          # out-of-line definition of a nested class
                    scope = self.rec_qname[pid]
                q = (scope + '::' if scope else '') + name
                self.records[o['id']] = o; self.rec_qname[o['id']] = q
                self.rec_by_name.setdefault(q, o)
                self.tu_of.setdefault(q, tu)
                for c in o.get('inner', []):
                    if c.get('kind') == 'FieldDecl': self.fields[c['id']] = c
                    self._walk(c, q, tu)
        elif k in ('TypeAliasDecl', 'TypedefDecl'):
            t = o.get('type', {})
            self.aliases[o['name']] = t.get('desugaredQualType') or t.get('qualType')
        elif k == 'ClassTemplateDecl':
            for c in o.get('inner', []):
                if c.get('kind') == 'ClassTemplateSpecializationDecl':
                    self._walk(c, scope, tu)
        elif k in FN_KINDS:
            o['_scope'] = scope
            self._pending.append((tu, o))
        elif k == 'FunctionTemplateDecl':
            for c in o.get('inner', []):
                if c.get('kind') in FN_KINDS and not c.get('_tmpl'):
                    pass
        elif k == 'EnumDecl':
            q = (scope + '::' if scope else '') + (o.get('name') or '')
            self.enums[q] = o
            nxt = 0
            for c in o.get('inner', []):
                if c.get('kind') == 'EnumConstantDecl':
                    v = None
                    def find(n):
                        if isinstance(n, dict):
                            if n.get('kind') in ('ConstantExpr', 'IntegerLiteral') and 'value' in n: return n['value']
                            for x in n.get('inner', []):
                                r = find(x)
                                if r is not None: return r
                        return None
                    v = find({'inner': c.get('inner', [])})
                    val = int(v) if v is not None else nxt
                    self.enum_consts[c['id']] = val; nxt = val + 1
        elif k == 'VarDecl' and (top or scope):
            o['_scope'] = scope
            self.vars.setdefault(o.get('name'), o)
        elif k == 'NamespaceDecl':
            for c in o.get('inner', []):
                self._walk(c, scope, tu, top=True)
    @staticmethod
    def _targ(a):
        t = a.get('type', {}).get('qualType')
        if t: return t.replace('QtLogger::', '')
        return str(a.get('value', '?'))
    def _add_fn(self, o, tu):
        self.decl_by_id[o['id']] = o
        if not any(c.get('kind') == 'CompoundStmt' for c in o.get('inner', [])) and not o.get('explicitlyDefaulted'):
            # declaration only
            self.fn_by_id.setdefault(o['id'], o)
            return
        scope = o.get('_scope', '')
        pid = o.get('parentDeclContextId')
        if not scope and pid in self.rec_qname:
            scope = self.rec_qname[pid]
        o['_scope'] = scope
        q = (scope + '::' if scope else '') + o.get('name', '?')
        o['_qname'] = q; o['_tu'] = tu
        lst = self.functions.setdefault(q, [])
        sig = o.get('type', {}).get('qualType')
        if not any(x.get('type', {}).get('qualType') == sig for x in lst):
            lst.append(o)
        self.fn_by_id[o['id']] = o
        if 'previousDecl' in o:
            self.fn_by_id[o['previousDecl']] = o

def show(n, d=0, maxd=60, out=sys.stdout):
    k = n.get('kind', '?'); extra = ''
    for key in ('name', 'opcode', 'value', 'castKind', 'valueCategory', 'isArrow', 'isPostfix'):
        if key in n: extra += f' {key}={n[key]}'
    if 'type' in n:
        extra += ' type=' + str(n['type'].get('qualType', ''))
        if 'desugaredQualType' in n['type']: extra += ' [' + n['type']['desugaredQualType'] + ']'
    rd = n.get('referencedDecl')
    if rd: extra += ' ref=' + str(rd.get('name')) + ':' + str(rd.get('type', {}).get('qualType', '')) + '/' + rd.get('kind', '')
    rm = n.get('referencedMemberDecl')
    if rm: extra += ' memb=' + str(rm)
    print('  ' * d + k + extra, file=out)
    if d < maxd:
        for c in n.get('inner', []): show(c, d + 1, maxd, out)

if __name__ == '__main__':
    tu = sys.argv[1]; want = sys.argv[2] if len(sys.argv) > 2 else ''
    maxd = int(sys.argv[3]) if len(sys.argv) > 3 else 60
    ix = Index([tu])
    if want == '--list':
        for q, l in sorted(ix.functions.items()):
            for f in l: print(q, '|', f['type']['qualType'], '|', f.get('loc', {}).get('line'))
        for q in sorted(ix.rec_by_name): print('record', q)
        sys.exit(0)
    for q, l in ix.functions.items():
        if want in q:
            for f in l:
                print('=====', q, f['type']['qualType']); show(f, 0, maxd)
    for q, r in ix.rec_by_name.items():
        if want == 'record:' + q:
            show(r, 0, 2)
