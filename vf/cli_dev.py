import sys, os
sys.path.insert(0, os.path.dirname(os.path.dirname(os.path.abspath(__file__))))
from vf import engine
u = engine.Unit(sys.argv[1], sys.argv[2])
try:
    u.build({})
except engine.Undecided as e:
    print('UNDECIDED', e); sys.exit(2)
only = sys.argv[3:] 
for p in u.proofs:
    if only and p.target not in only: continue
    u.prove(p)
    nf = [r for r in p.results if r['status'] != 'SUCCESS']
    print(p.target, p.status, '%d obligations' % len(p.results), '%d failed' % len(nf), '%.1fs' % p.seconds, p.reason, 'canary=%s' % p.canary_ok)
    for r in nf[:12]:
        sl = r.get('sourceLocation', {})
        print('   FAIL', r['property'], '|', r['description'][:150], '|', sl.get('file'), sl.get('line'))
    if p.status == 'UNDECIDED':
        print(p.log[-600:])
        if 'goto-cc failed' in p.reason: break
