"""Mechanical lowering of clang's typed AST of the real qtlogger functions to C (DESIGN 2.2).

Generic, table-driven: no per-function text patterns. Anything without a rule raises
Unsupported -> the check exits 2 (UNDECIDED), never a verdict.

Conventions of the produced C
  * member function  C::f(args)          ->  C_f(C *self, args)        (overloads: + __<param types>)
  * constructor      C::C(args)          ->  C_ctor__<param types>(C *self, args)
  * external (Qt/std) callee             ->  <Class>_<name>[__<argument types>] declared in models/*.h
      - receiver of a const method: by value for model value types; non-const: by pointer
      - class-type arguments: model value types by value, repo classes by pointer
      - a callee returning a non-const lvalue reference returns a pointer; the call is dereferenced
  * references (params, locals bound to lvalues) -> pointers, dereferenced at each use
  * const-reference locals/params of model value types -> copies (aliasing through them not modelled)
  * bool -> BOOL (int; see DESIGN 2.3), comparisons produce 0/1 as in C
  * every loop gets a LOOP_<fn>_<k> macro slot for its loop contract (sidecar defines it)
"""
import re, zlib
from . import cxxast

class Unsupported(Exception):
    pass

BUILTIN = {
    'bool': 'BOOL', '_Bool': 'BOOL', 'int': 'int', 'unsigned int': 'unsigned int', 'char': 'char',
    'signed char': 'signed char', 'unsigned char': 'unsigned char', 'short': 'short',
    'unsigned short': 'unsigned short', 'long': 'long', 'unsigned long': 'unsigned long',
    'long long': 'long long', 'unsigned long long': 'unsigned long long', 'double': 'double',
    'float': 'float', 'void': 'void', 'size_t': 'unsigned long', 'std::size_t': 'unsigned long',
    'char16_t': 'unsigned short', 'std::nullptr_t': 'void *', 'nullptr_t': 'void *',
}
ALIASES = {  # desugared spelling -> friendlier model type name
    'QHash<QString, QVariant>': 'QVariantHash',
    'QMap<QString, QVariant>': 'QVariantMap',
    'QList<QString>': 'QList_QString',
}

def strip_cv(t):
    t = t.strip()
    changed = True
    while changed:
        changed = False
        for kw in ('const ', 'volatile ', 'class ', 'struct ', 'enum ', 'typename '):
            if t.startswith(kw): t = t[len(kw):].strip(); changed = True
        for kw in (' const', ' volatile'):
            if t.endswith(kw): t = t[:-len(kw)].strip(); changed = True
    return t

def split_type(q):
    """-> (core, suffixes) where suffixes is a string of '*' and '&' (outermost last)."""
    q = q.strip(); suf = ''
    while True:
        q = strip_cv(q)
        if q.endswith('&&'): suf = 'R' + suf; q = q[:-2]
        elif q.endswith('&'): suf = '&' + suf; q = q[:-1]
        elif q.endswith('*'): suf = '*' + suf; q = q[:-1]
        elif q.endswith('*const'): suf = '*' + suf; q = q[:-6]
        else: break
    return q.strip(), suf

def is_const(q):
    """constness of the referred-to object type (after removing one level of reference)."""
    q = q.strip()
    while q.endswith('&'): q = q[:-1].strip()
    if q.endswith('*') or q.endswith('*const'):
        return False
    return q.startswith('const ') or q.endswith(' const')

TYPE_ALIASES = {}   # filled from the TypeAliasDecls of the indexed TUs (name -> desugared text)
QT_TYPEDEFS = {'qint64': 'long long', 'quint64': 'unsigned long long', 'quint32': 'unsigned int', 'qint32': 'int',
               'quint16': 'unsigned short', 'quint8': 'unsigned char', 'uint': 'unsigned int', 'quintptr': 'unsigned long long',
               'qsizetype': 'long long', 'uchar': 'unsigned char', 'ushort': 'unsigned short', 'ulong': 'unsigned long',
               'qreal': 'double', 'qlonglong': 'long long', 'qulonglong': 'unsigned long long',
               'QVariantHash': 'QHash<QString, QVariant>', 'QVariantMap': 'QMap<QString, QVariant>',
               'QVariantList': 'QList<QVariant>'}

def resolve_aliases(core):
    for _ in range(4):
        before = core
        for k, v in list(TYPE_ALIASES.items()) + list(QT_TYPEDEFS.items()):
            core = re.sub(r'(?<![A-Za-z0-9_:])(?:QtLogger::)?' + re.escape(k) + r'(?![A-Za-z0-9_])', v, core)
        if core == before: break
    return core

def mangle_core(core):
    core = resolve_aliases(core)
    core = core.replace('QtLogger::', '').replace('(anonymous namespace)::', '')
    core = core.replace('std::chrono::steady_clock::time_point', 'steady_time_point')
    if core.startswith('std::chrono::time_point<std::chrono::steady_clock'): return 'steady_time_point'
    if core.startswith('std::chrono::duration<'): return 'chrono_duration'
    if core in ALIASES: return ALIASES[core]
    if core in BUILTIN: return BUILTIN[core]
    s = core
    s = re.sub(r'\bconst\b', '', s)
    s = s.replace('::', '_').replace('<', '_').replace('>', '').replace(',', '_').replace('*', 'P').replace('&', 'R')
    s = re.sub(r'[^A-Za-z0-9_]', '', s.replace(' ', ''))
    s = re.sub(r'_+', '_', s).strip('_')
    return s

class CType:
    """C-side view of a C++ type."""
    def __init__(self, q, desugared=None):
        self.q = q
        src = desugared or q
        core, suf = split_type(src)
        core = resolve_aliases(core)
        self.core_cxx = core
        self.suf = suf
        self.name = mangle_core(core)
        if '(lambda at' in core or 'lambda at ' in core: self.name = 'lambda_t'       # closure types: one opaque model type
        # const char * -> cstr (abstract C string), for every profile
        if self.name == 'char' and suf.startswith('*') and is_const_char_ptr(src):
            self.name = 'cstr'; self.suf = suf[1:]
    @property
    def is_ref(self): return self.suf.endswith('&') or self.suf.endswith('R')
    @property
    def nonref(self):
        s = self.suf[:-1] if self.is_ref else self.suf
        return self.name + ' ' + '*' * s.count('*') if s else self.name
    @property
    def is_ptr(self):
        s = self.suf[:-1] if self.is_ref else self.suf
        return s.endswith('*')
    @property
    def is_builtin(self): return self.core_cxx in BUILTIN or self.name in BUILTIN.values()

def is_const_char_ptr(src):
    s = src.replace(' ', '')
    return s.startswith('constchar*') or s.startswith('charconst*')

def lit_ident(text):
    s = re.sub(r'[^A-Za-z0-9]', '_', text)[:32]
    h = zlib.crc32(text.encode('utf-8', 'surrogatepass')) & 0x3fffffff
    if re.fullmatch(r'[A-Za-z_][A-Za-z0-9_]*', text) and len(text) <= 32:
        return 'LIT_' + text, h
    return 'LIT_%s_%08x' % (s, h), h

def nodetype(n):
    t = n.get('type', {})
    return t.get('qualType', ''), t.get('desugaredQualType')

def ct(n):
    q, d = nodetype(n)
    return CType(q, d)

def has_errors(n):
    if n.get('kind') == 'RecoveryExpr' or n.get('containsErrors'):
        return True
    return any(has_errors(c) for c in n.get('inner', []) if isinstance(c, dict))

def src_line(n):
    r = n.get('range', {}).get('begin', {})
    r = r.get('expansionLoc', r)
    return r.get('line')

class FnInfo:
    def __init__(self, cname, node, qname):
        self.cname = cname; self.node = node; self.qname = qname
        self.callees = set(); self.loops = []; self.rules = {}; self.locals = set()
        self.local_decls = {}     # plain (non-reference, non-array, non-static) locals in declaration order: name -> C type
        self.text = ''; self.proto = ''
        self.line = None; self.file = None

class Lowerer:
    def __init__(self, index, repo_value_classes=()):
        self.ix = index
        self.lits = {}            # ident -> (hash, text, length)
        self.fns = {}             # cname -> FnInfo
        self.structs_needed = []  # record qnames in dependency order
        self.lambdas = []         # pending lambda nodes to emit
        self.cur = None
        self.tmp = 0
        self.extern_calls = {}    # cname -> example description
        self.static_locals = []   # hoisted 'static' locals -> globals
        # repo classes that are passed by value in the models (none by default)
        self.repo_value = set(repo_value_classes)
        TYPE_ALIASES.clear()
        TYPE_ALIASES.update(index.aliases)

    # ------------------------------------------------------------------ helpers
    def rule(self, r):
        if self.cur is not None:
            self.cur.rules[r] = self.cur.rules.get(r, 0) + 1

    def is_repo_class(self, t):
        """t: CType. True if the core names a class defined in namespace QtLogger."""
        core = t.core_cxx
        if core.startswith('QtLogger::') or core.startswith('(anonymous namespace)::'):
            core2 = core.replace('QtLogger::', '').replace('(anonymous namespace)::', '')
            return core2 in self.ix.rec_by_name or self._tmpl_name(core2) in self.ix.rec_by_name
        return t.name in self._rec_mangled()
    _recm = None
    def _rec_mangled(self):
        if self._recm is None:
            self._recm = {mangle_core(q): q for q in self.ix.rec_by_name}
        return self._recm
    @staticmethod
    def _tmpl_name(core):
        return core.replace('QtLogger::', '').replace(', ', ',')

    def rec_for(self, t):
        m = self._rec_mangled()
        return m.get(t.name)

    def fn_cname(self, f):
        """C name of a repo function node (definition or declaration)."""
        q = f.get('_qname')
        if q is None:
            scope = f.get('_scope', '')
            pid = f.get('parentDeclContextId')
            if not scope and pid in self.ix.rec_qname: scope = self.ix.rec_qname[pid]
            q = (scope + '::' if scope else '') + f.get('name', '?')
        kind = f.get('kind')
        base = mangle_core(q.rsplit('::', 1)[0]) if '::' in q else ''
        name = q.rsplit('::', 1)[-1]
        if kind == 'CXXConstructorDecl':
            return base + '_ctor__' + self.sig_suffix(f)
        if kind == 'CXXDestructorDecl':
            return base + '_dtor'
        name = self.opname(name)
        cn = (base + '_' if base else '') + name
        if self.overloaded(q):
            cn += '__' + self.sig_suffix(f)
        if self.is_const_method(f) and self.has_nonconst_twin(f, q):
            cn += '__const'
        return cn
    @staticmethod
    def is_const_method(f):
        return bool(re.search(r'\)\s*const\b', f.get('type', {}).get('qualType', '')))
    def has_nonconst_twin(self, f, q):
        ss = self.sig_suffix(f)
        for g in self.ix.fn_by_id.values():
            if g is not f and g.get('kind') == 'CXXMethodDecl' and self._qname_of(g) == q and self.sig_suffix(g) == ss and not self.is_const_method(g):
                return True
        return False
    def overloaded(self, q):
        sigs = set()
        for f in self.ix.fn_by_id.values():
            if f.get('_qname') == q or self._qname_of(f) == q:
                sigs.add(self.sig_suffix(f))
        return len(sigs) > 1
    _qcache = None
    def _qname_of(self, f):
        if '_qname' in f: return f['_qname']
        scope = f.get('_scope', '')
        pid = f.get('parentDeclContextId')
        if not scope and pid in self.ix.rec_qname: scope = self.ix.rec_qname[pid]
        f['_qname'] = (scope + '::' if scope else '') + f.get('name', '?')
        return f['_qname']
    def sig_suffix(self, f):
        ps = [p for p in f.get('inner', []) if p.get('kind') == 'ParmVarDecl']
        if not ps: return 'void'
        return '_'.join(ct(p).name.replace(' ', '') + ('P' * ct(p).suf.count('*')) for p in ps)
    OPS = {'operator=': 'assign', 'operator==': 'eq', 'operator!=': 'ne', 'operator<': 'lt', 'operator>': 'gt',
           'operator<=': 'le', 'operator>=': 'ge', 'operator+': 'plus', 'operator-': 'minus', 'operator*': 'deref',
           'operator->': 'arrow', 'operator!': 'not', 'operator++': 'inc', 'operator--': 'dec', 'operator<<': 'shl',
           'operator>>': 'shr', 'operator[]': 'index', 'operator()': 'call', 'operator+=': 'addassign',
           'operator-=': 'subassign', 'operator|=': 'orassign', 'operator&=': 'andassign', 'operator|': 'or',
           'operator&': 'and', 'operator bool': 'tobool', 'operator~': 'compl', 'operator^': 'xor',
           'operator/': 'div', 'operator%': 'mod'}
    def opname(self, name):
        if name in self.OPS: return 'op_' + self.OPS[name]
        if name.startswith('operator ') and 'RestrictedBool' in name: return 'op_tobool'      # safe-bool idiom of Qt smart pointers
        if name.startswith('operator '): return 'op_conv_' + mangle_core(name[9:])
        if name.startswith('~'): return 'dtor'
        return name

    def new_tmp(self):
        self.tmp += 1
        return '_t%d' % self.tmp

    # ------------------------------------------------------------------ types
    def ctype_decl(self, t, name=''):
        """C declaration text for a value of CType t (reference -> pointer)."""
        s = t.suf
        stars = s.count('*') + (1 if t.is_ref else 0)
        return (t.name + ' ' + '*' * stars + name).strip()

    def value_decl(self, t, name=''):
        s = t.suf[:-1] if t.is_ref else t.suf
        return (t.name + ' ' + '*' * s.count('*') + name).strip()

    def is_class_type(self, t):
        return not t.is_builtin and not t.is_ptr and not self.is_enum(t)
    def is_enum(self, t):
        core = t.core_cxx.replace('QtLogger::', '').replace('(anonymous namespace)::', '')
        return core in self.ix.enums or t.name in ENUM_MODEL_TYPES

    # ------------------------------------------------------------------ structs
    def need_struct(self, qname):
        if qname in self.structs_needed: return
        rec = self.ix.rec_by_name[qname]
        # dependencies first: bases and by-value repo-class fields
        for b in rec.get('bases', []):
            bt = CType(b['type']['qualType'], b['type'].get('desugaredQualType'))
            r = self.rec_for(bt)
            if r: self.need_struct(r)
        for c in rec.get('inner', []):
            if c.get('kind') == 'FieldDecl':
                t = ct(c)
                if not t.is_ptr and not t.is_ref:
                    r = self.rec_for(t)
                    if r and r != qname: self.need_struct(r)
        self.structs_needed.append(qname)

    def struct_text(self, qname):
        rec = self.ix.rec_by_name[qname]
        name = mangle_core(qname)
        out = 'struct %s {\n' % name
        n = 0
        for b in rec.get('bases', []):
            bt = CType(b['type']['qualType'], b['type'].get('desugaredQualType'))
            out += '    %s _base%s;\n' % (bt.name, '' if n == 0 else str(n)); n += 1
        for c in rec.get('inner', []):
            if c.get('kind') == 'FieldDecl':
                t = ct(c)
                arr = ''
                out += '    %s%s;\n' % (self.ctype_decl(t, c['name']), arr); n += 1
        if n == 0:
            out += '    int _empty;\n'
        out += '};\n'
        return out

    def fields_of(self, qname):
        rec = self.ix.rec_by_name[qname]
        return [c for c in rec.get('inner', []) if c.get('kind') == 'FieldDecl']

    # ------------------------------------------------------------------ expressions
    def e(self, n):
        k = n['kind']
        m = getattr(self, 'e_' + k, None)
        if not m: raise Unsupported('no lowering rule for expression kind %s (line %s)' % (k, src_line(n)))
        return m(n)

    def passthru(self, n): return self.e(n['inner'][0])
    e_ExprWithCleanups = e_CXXBindTemporaryExpr = e_ConstantExpr = e_SubstNonTypeTemplateParmExpr = passthru
    def e_MaterializeTemporaryExpr(self, n): return self.e(n['inner'][0])
    def e_ParenExpr(self, n): return '(' + self.e(n['inner'][0]) + ')'
    def e_CXXFunctionalCastExpr(self, n): return self.cast(n)
    def e_CStyleCastExpr(self, n): return self.cast(n)
    def e_CXXStaticCastExpr(self, n): return self.cast(n)
    def e_CXXReinterpretCastExpr(self, n): return self.cast(n)
    def e_CXXConstCastExpr(self, n): return self.e(n['inner'][0])
    def e_CXXDynamicCastExpr(self, n):
        # dynamic_cast<T*>(p): model function named after source and target class (returns p or null: sidecar decides)
        t = ct(n); st = ct(n['inner'][0])
        cname = 'dynamic_cast_%s__%s' % (t.name + 'P' * t.suf.count('*'), st.name + 'P' * st.suf.count('*'))
        self.note_extern(cname, n); self.rule('dynamic_cast -> model function')
        return '%s(%s)' % (cname, self.e(n['inner'][0]))
    def e_ImplicitCastExpr(self, n): return self.cast(n)

    def cast(self, n):
        ck = n.get('castKind'); sub = n['inner'][0]
        if ck == 'LValueToRValue' and sub.get('kind') == 'ArraySubscriptExpr':
            a, i = sub['inner']; base = a
            while base.get('kind') in ('ImplicitCastExpr', 'ParenExpr'): base = base['inner'][0]
            if base.get('kind') == 'DeclRefExpr':
                nm = self.var_name(base['referencedDecl'])
                self.array_reads = getattr(self, 'array_reads', set()); self.array_reads.add(nm)
                self.rule('array element read -> ARR_RD_<array> hook (identity unless the sidecar instruments it)')
                return 'ARR_RD_%s(%s, %s)' % (nm, self.e(a), self.e(i))
        if ck in ('LValueToRValue', 'NoOp', 'FunctionToPointerDecay', 'ConstructorConversion', 'UserDefinedConversion'):
            return self.e(sub)
        if ck == 'ArrayToPointerDecay':
            if sub['kind'] == 'StringLiteral': return self.e(sub)
            return self.e(sub)
        if ck in ('DerivedToBase', 'UncheckedDerivedToBase'):
            x = self.e(sub); st = ct(sub)
            for _ in n.get('path', [{}]):
                x = '(&(%s)->_base)' % x if st.is_ptr else '(%s)._base' % x
            self.rule('derived-to-base')
            return x
        if ck == 'IntegralCast' and (n.get('kind') in ('CStyleCastExpr', 'CXXStaticCastExpr', 'CXXFunctionalCastExpr') or n.get('isPartOfExplicitCast')):
            # an EXPLICIT cast to a narrower UNSIGNED type is a deliberate modular truncation (e.g. gzip ISIZE = size mod 2^32):
            # written as a mask so that --conversion-check keeps watching the implicit conversions only
            t = ct(n); st = ct(sub)
            masks = {'unsigned int': '0xffffffffll', 'unsigned short': '0xffffll', 'unsigned char': '0xffll'}
            wide = {'long long', 'unsigned long long', 'long', 'unsigned long', 'int', 'unsigned int', 'short', 'unsigned short', 'char', 'signed char'}
            signed = {'long long', 'long', 'int', 'short', 'char', 'signed char'}
            if t.name in masks and st.name in wide and st.name != t.name:
                self.rule('explicit cast to narrower/other-signedness unsigned -> modular truncation')
                if st.name in signed: return '((%s)(((long long)(%s)) & %s))' % (t.name, self.e(sub), masks[t.name])
                return '((%s)(((unsigned long long)(%s)) & %s))' % (t.name, self.e(sub), masks[t.name].replace('ll', 'ull'))
            if t.name == 'int' and st.name in ('unsigned long', 'unsigned long long', 'unsigned int') and not t.suf and not st.suf and self.side_effect_free(sub):
                # explicit static_cast<int>(unsigned wider-or-equal): modular (two's complement) conversion -- implementation-defined before
                # C++20 and defined so by GCC/Clang, guaranteed since C++20; a deliberate truncation, not an overflow
                self.rule('explicit cast of an unsigned value to int -> two\'s complement wrap (deliberate truncation)')
                x = self.e(sub)
                return '(((unsigned long long)(%s) & 0xffffffffull) >= 0x80000000ull ? (int)((long long)((unsigned long long)(%s) & 0xffffffffull) - 0x100000000ll) : (int)((unsigned long long)(%s) & 0xffffffffull))' % (x, x, x)
        if ck == 'IntegralCast':
            # an IMPLICIT conversion of a signed value to an unsigned type that is at least as wide is well-defined (modular, C++ [conv.integral])
            # and loses nothing that a later comparison could not see: written as sign-extension + mask, not watched by --conversion-check.
            # (implicit NARROWING conversions stay plain casts and stay watched)
            t = ct(n); st = ct(sub)
            width = {'char': 8, 'signed char': 8, 'short': 16, 'int': 32}
            tw = {'unsigned int': (32, '0xffffffffll'), 'unsigned short': (16, '0xffffll')}
            if t.name in tw and st.name in width and width[st.name] <= tw[t.name][0] and not t.suf and not st.suf:
                self.rule('implicit signed -> wider-or-equal unsigned conversion -> sign extension + mask (well-defined)')
                return '((%s)(((long long)(%s)) & %s))' % (t.name, self.e(sub), tw[t.name][1])
        if ck in ('IntegralCast', 'IntegralToFloating', 'FloatingToIntegral', 'FloatingCast'):
            t = ct(n)
            if self.is_enum(t) and not t.is_builtin:
                return '((%s)(%s))' % (t.name, self.e(sub))
            return '((%s)(%s))' % (t.name, self.e(sub))
        if ck == 'MemberPointerToBoolean':
            # safe-bool idiom: `if (ptr)` on a Qt smart pointer = ptr.operator RestrictedBool() != 0
            x = sub
            while x.get('kind') in ('ImplicitCastExpr', 'ParenExpr', 'ExprWithCleanups'): x = x['inner'][0]
            if x.get('kind') == 'CXXMemberCallExpr':
                me = x['inner'][0]
                while me.get('kind') in ('ImplicitCastExpr', 'ParenExpr'): me = me['inner'][0]
                if me.get('kind') == 'MemberExpr':
                    base = me['inner'][0]; cname = '%s_op_tobool' % ct(base).name
                    self.note_extern(cname, n); self.rule('smart pointer in boolean context -> op_tobool')
                    return '%s(%s)' % (cname, self.e(base))
            return '((%s) != 0)' % self.e(sub)
        if ck in ('IntegralToBoolean', 'PointerToBoolean'):
            if ct(sub).name == 'cstr' and not ct(sub).suf.count('*'): return '(!(%s).isnull)' % self.e(sub)      # const char * in boolean context
            return '((%s) != 0)' % self.e(sub)
        if ck == 'NullToPointer':
            t = ct(n)
            if t.name == 'cstr': return 'cstr_null()'
            return '((%s)0)' % self.ctype_decl(t)
        if ck == 'BitCast':
            t = ct(n)
            if t.name == 'cstr' and not t.suf.count('*'):
                self.rule('reinterpret_cast to const char* -> cstr_from_ptr')
                return 'cstr_from_ptr((const void *)(%s), sizeof(*(%s)))' % (self.e(sub), self.e(sub))
            return '((%s)(%s))' % (self.ctype_decl(t), self.e(sub))
        if ck == 'ToVoid':
            return '((void)(%s))' % self.e(sub)
        if ck == 'PointerToIntegral':
            return '((%s)(%s))' % (ct(n).name, self.e(sub))
        raise Unsupported('no lowering rule for cast kind %s (line %s)' % (ck, src_line(n)))

    def e_CXXThisExpr(self, n): return 'self'
    def e_CXXBoolLiteralExpr(self, n): return '1' if n['value'] else '0'
    def e_IntegerLiteral(self, n):
        t = ct(n).name; v = str(n['value'])
        if t == 'unsigned int': return v + 'u'
        if t == 'long': return v + 'l'
        if t == 'unsigned long': return v + 'ul'
        if t == 'long long': return v + 'll'
        if t == 'unsigned long long': return v + 'ull'
        return v
    def e_FloatingLiteral(self, n): return str(n['value'])
    def e_CharacterLiteral(self, n):
        v = int(n['value']); t = ct(n).name
        if t == 'char' and v >= 2**31: v -= 2**32          # clang prints '\x8b' as 4294967179; plain char is signed here
        return str(v)
    def e_CXXNullPtrLiteralExpr(self, n): return '0'
    def e_GNUNullExpr(self, n): return '0'
    def e_StringLiteral(self, n):
        raw = n.get('value', '""')
        text = decode_c_literal(raw)
        ident, h = lit_ident(text)
        self.lits[ident] = (h, text, len(text))
        self.rule('string-literal')
        return 'cstr_lit(%s, %d)' % (ident, len(text))
    def e_UnaryExprOrTypeTraitExpr(self, n):
        if n.get('name') == 'sizeof':
            if n.get('inner'):
                sub = n['inner'][0]
                while sub['kind'] == 'ParenExpr': sub = sub['inner'][0]
                return 'sizeof(%s)' % self.e(sub)
            at = n.get('argType', {}).get('qualType')
            return 'sizeof(%s)' % CType(at).name
        raise Unsupported('trait ' + str(n.get('name')))
    def e_DeclRefExpr(self, n):
        rd = n['referencedDecl']; name = rd.get('name')
        k = rd.get('kind')
        if k == 'EnumConstantDecl':
            return self.enum_const(rd, n)
        if k in ('VarDecl', 'ParmVarDecl', 'BindingDecl'):
            name = self.var_name(rd)
            gv = self.ix.vars.get(rd.get('name'))
            if k == 'VarDecl' and gv is not None and gv.get('id') == rd.get('id') and rd['id'] not in self.scope_ids and gv.get('constexpr', False) | ('const ' in (gv.get('type', {}).get('qualType', '') + ' ')):
                # namespace-scope constant with a literal initialiser: emitted once as a static const of the unit
                init = [c for c in gv.get('inner', []) if isinstance(c, dict) and c.get('kind') and not c['kind'].endswith('Comment')]
                t = CType(gv['type']['qualType'], gv['type'].get('desugaredQualType'))
                if init and t.is_builtin:
                    decl = 'static const %s %s = %s;' % (t.name, name, self.e(init[0]))
                    if decl not in self.static_locals: self.static_locals.append(decl); self.rule('namespace-scope constant emitted')
                elif init and not t.is_ptr and self.literal_only(init[0]):
                    # const object built from literals only (e.g. static const QChar DEL_MARKER = QChar(0x200B)): its initialiser
                    # expression, re-evaluated at each use (C has no dynamic initialisation; the constructor model is pure)
                    mark4 = len(self.temps)
                    try:
                        ex = self.e(init[0])
                        if len(self.temps) == mark4:
                            decl = '#define %s (%s)   /* namespace-scope const object, literal initialiser */' % (name, ex)
                            if decl not in self.static_locals: self.static_locals.append(decl); self.rule('namespace-scope const object with literal initialiser emitted')
                    except Unsupported:
                        pass
                    del self.temps[mark4:]
            if rd['id'] in self.refs: return '(*%s)' % name
            return name
        if k in ('FunctionDecl', 'CXXMethodDecl'):
            f = self.ix.fn_by_id.get(rd['id'])
            if f is not None: return self.fn_cname(f)
            return mangle_core(name)
        raise Unsupported('DeclRefExpr to %s' % k)
    def var_name(self, rd):
        nm = rd.get('name') or ('_anon%s' % rd['id'][-4:])
        if rd['id'] in self.renames: return self.renames[rd['id']]
        if nm in C_KEYWORDS: return nm + '_'
        return nm
    def enum_const(self, rd, n):
        if rd['id'] in self.ix.enum_consts and not ct(n).name in ENUM_MODEL_TYPES:
            self.rule('repo enum constant -> its value')
            return '%d /* %s */' % (self.ix.enum_consts[rd['id']], rd['name'])
        t = ct(n)
        return 'E_%s_%s' % (t.name, rd['name'])

    def e_MemberExpr(self, n):
        base = n['inner'][0]
        b = self.e(base)
        name = n['name']
        if n.get('isArrow'): return '%s->%s' % (b, name)
        return '%s.%s' % (b, name)

    def e_ArraySubscriptExpr(self, n):
        a, i = n['inner']
        return '%s[%s]' % (self.e(a), self.e(i))

    def e_UnaryOperator(self, n):
        sub = n['inner'][0]; op = n['opcode']
        if op == '&':
            return self.addr(sub)
        if op == '*':
            t = ct(sub)
            if t.name == 'cstr' and not t.suf.count('*'): return 'cstr_deref(%s)' % self.e(sub)
            return '(*%s)' % self.e(sub)
        x = self.e(sub)
        if n.get('isPostfix'): return '(%s%s)' % (x, op)
        return '(%s%s)' % (op, x)
    def e_BinaryOperator(self, n):
        a, b = n['inner']; op = n['opcode']
        ta, tb = ct(a), ct(b)
        if ta.name == 'cstr' and not ta.suf.count('*') and op in ('+', '-') and tb.is_builtin:
            return 'cstr_add(%s, %s(%s))' % (self.e(a), '-' if op == '-' else '', self.e(b))
        if ta.name == 'cstr' and not ta.suf.count('*') and op in ('==', '!='):
            return '(%scstr_eq(%s, %s))' % ('!' if op == '!=' else '', self.e(a), self.e(b))
        if op == ',':
            return '(%s, %s)' % (self.e(a), self.e(b))
        return '(%s %s %s)' % (self.e(a), op, self.e(b))
    def e_CompoundAssignOperator(self, n):
        a, b = n['inner']
        return '(%s %s %s)' % (self.e(a), n['opcode'], self.e(b))
    def e_ConditionalOperator(self, n):
        c, a, b = n['inner']
        return '(%s ? %s : %s)' % (self.e(c), self.e(a), self.e(b))

    def is_lvalue(self, n):
        return n.get('valueCategory') == 'lvalue'

    def addr(self, n):
        """C expression for the address of the object designated by n."""
        inner = n
        while inner['kind'] in ('ParenExpr',) or (inner['kind'] == 'ImplicitCastExpr' and inner.get('castKind') == 'NoOp'):
            inner = inner['inner'][0]
        if inner['kind'] == 'ConditionalOperator' and self.is_lvalue(inner):
            # &(c ? a : b) on lvalues  ->  c ? &a : &b   (C has no lvalue conditional)
            c_, a_, b_ = inner['inner']
            self.rule('address of an lvalue conditional -> conditional of addresses')
            return '((%s) ? %s : %s)' % (self.e(c_), self.addr(a_), self.addr(b_))
        tempish = inner
        while tempish.get('kind') in ('ExprWithCleanups', 'CXXBindTemporaryExpr'): tempish = tempish['inner'][0]
        is_temp = tempish.get('kind') == 'MaterializeTemporaryExpr' or (tempish.get('kind') in ('CXXOperatorCallExpr', 'CXXMemberCallExpr', 'CallExpr') and self.is_extern_call(tempish)
                                                                         and not (self.is_lvalue(tempish) and not is_const(nodetype(tempish)[0])))
        if not is_temp and (self.is_lvalue(inner) or inner['kind'] in ('DeclRefExpr', 'MemberExpr', 'ArraySubscriptExpr')):
            x = self.e(inner)
            if x.startswith('(*') and x.endswith(')') and balanced(x[2:-1]): return x[2:-1]
            return '&' + x
        # prvalue: materialise into a block-scope temporary
        t = ct(inner)
        tmp = self.new_tmp()
        self.temps.append('%s;' % self.value_decl(t, tmp))
        self.rule('temporary-materialised')
        return '(%s = %s, &%s)' % (tmp, self.e(inner), tmp)

    # ---- calls
    def arg(self, a, param_t=None, repo_callee=False):
        """Lower one call argument. param_t: CType of the parameter if known."""
        at = param_t or ct(a)
        core = a
        while core['kind'] in ('ExprWithCleanups', 'MaterializeTemporaryExpr', 'CXXBindTemporaryExpr') or \
                (core['kind'] == 'ImplicitCastExpr' and core.get('castKind') in ('NoOp',)):
            core = core['inner'][0]
        vt = ct(a)
        if param_t is not None and param_t.is_ref:
            pt_const = is_const(param_t.q)
            if self.is_class_type(vt) and self.is_repo_class(vt) and vt.name not in self.repo_value:
                return self.addr(a)
            if not pt_const or not self.is_class_type(vt):
                if not pt_const:
                    return self.addr(a)
                if not self.is_class_type(vt):
                    return self.e(a)      # const T& of scalar -> by value
            return self.e(a)
        if param_t is None:
            # external callee: repo class objects go by pointer; non-const lvalues of class type that
            # are not copied bind to a non-const reference -> pointer
            if self.is_class_type(vt) and self.is_repo_class(vt) and vt.name not in self.repo_value:
                return self.addr(a)
            if self.is_class_type(vt) and self.is_lvalue(core) and not is_const(nodetype(a)[0]) \
                    and a['kind'] not in ('CXXConstructExpr',) and core['kind'] != 'CXXConstructExpr':
                self.rule('nonconst-ref-argument->pointer')
                return self.addr(a)
        else:
            if self.is_class_type(vt) and self.is_repo_class(vt) and vt.name not in self.repo_value:
                # by-value parameter of repo class type: pass pointer to a copy is not modelled
                return self.addr(a)
        return self.e(a)

    def drop_defaults(self, args):
        """Default arguments of external callees are not in the dump: they are dropped from the call
        and from the overload suffix (the model function stands for the call with those defaults)."""
        out = [a for a in args if a['kind'] != 'CXXDefaultArgExpr']
        if len(out) != len(args): self.rule('external default argument dropped')
        return out

    def argsuffix(self, args):
        parts = []
        for a in args:
            t = ct(a)
            parts.append(t.name.replace(' ', '') + 'P' * t.suf.count('*'))
        return '_'.join(parts) if parts else ''

    def call_result(self, n, callstr):
        """Adjust for callee returning non-const lvalue reference (pointer in C)."""
        t = ct(n)
        if self.is_lvalue(n) and not is_const(nodetype(n)[0]):
            return '(*%s)' % callstr
        if self.is_lvalue(n) and self.is_class_type(t) and self.is_repo_class(t):
            return '(*%s)' % callstr
        return callstr

    def e_CXXMemberCallExpr(self, n):
        callee, *args = n['inner']
        while callee['kind'] in ('ParenExpr', 'ImplicitCastExpr'): callee = callee['inner'][0]
        if callee['kind'] != 'MemberExpr':
            raise Unsupported('member call through %s' % callee['kind'])
        base = callee['inner'][0]
        bt = ct(base)
        mid = callee.get('referencedMemberDecl')
        f = self.ix.fn_by_id.get(mid)
        name = callee['name']
        if f is not None:
            # repo method
            cname = self.fn_cname(f)
            params = [p for p in f.get('inner', []) if p.get('kind') == 'ParmVarDecl']
            recv = self.e(base) if callee.get('isArrow') else self.addr(base)
            recv = self.adjust_receiver(recv, base, callee, f)
            cargs = [recv]
            for i, a in enumerate(args):
                pt = ct(params[i]) if i < len(params) else None
                self.default_arg_src = self.param_with_default(f, i) if a.get('kind') == 'CXXDefaultArgExpr' else None
                cargs.append(self.arg(a, pt, True))
            self.default_arg_src = None
            self.cur.callees.add(cname)
            self.rule('repo-call')
            rt = CType(f['type']['qualType'].split('(')[0].strip())
            s = '%s(%s)' % (cname, ', '.join(cargs))
            if rt.is_ref: return '(*%s)' % s
            return s
        # external method
        args = self.drop_defaults(args)
        const_method = is_const(nodetype(base)[0]) if not callee.get('isArrow') else is_const(split_ptr(nodetype(base)))
        cls = bt.name
        if name.startswith('operator'):
            name = self.opname(name)
        if name in ('dynamicCast', 'staticCast', 'objectCast', 'constCast', 'toStrongRef', 'value', 'toObject') and name != 'value':
            rt_ = ct(n)
            if name.endswith('Cast'): name = name + '_' + rt_.name        # the target type is part of the model function's name
        suffix = self.argsuffix(args)
        cname = '%s_%s%s' % (cls, name, ('__' + suffix) if suffix else '')
        if name in ITER_METHODS:
            # iterators refer to their container: the receiver always goes by pointer; the const overload
            # (returning a const_iterator) is a distinct model function
            if const_method: cname += '_const'
            recv = self.e(base) if callee.get('isArrow') else self.addr(base)
            self.rule('iterator-producing method: receiver by pointer')
        elif cls in OBJECT_TYPES:
            recv = self.e(base) if callee.get('isArrow') else self.addr(base)     # identity objects: always by pointer
        elif callee.get('isArrow'):
            recv = self.e(base)
        elif const_method and not self.is_repo_class(bt):
            recv = self.e(base)          # by value
            if name in CONST_OVERLOADED: cname += '__const'      # Qt has `T &m()` and `T m() const`: two model functions
        else:
            recv = self.addr(base)
        cargs = [recv] + [self.arg(a) for a in args]
        self.note_extern(cname, n)
        return self.call_result(n, '%s(%s)' % (cname, ', '.join(cargs)))

    def adjust_receiver(self, recv, base, callee, f):
        """Static receiver type may be a class derived from the method's class: add _base steps."""
        bt = ct(base)
        have = self.rec_for(bt)
        want = self._qname_of(f).rsplit('::', 1)[0]
        steps = 0
        cur = have
        while cur and cur != want and steps < 8:
            rec = self.ix.rec_by_name.get(cur)
            bases = rec.get('bases', []) if rec else []
            if not bases: break
            b0 = bases[0]['type']
            cur = self.rec_for(CType(b0['qualType'], b0.get('desugaredQualType')))
            steps += 1
            recv = '(&(%s)->_base)' % recv
        return recv

    def note_extern(self, cname, n):
        self.cur.callees.add(cname)
        self.extern_calls.setdefault(cname, src_line(n))
        self.rule('extern-call')

    def e_CallExpr(self, n):
        callee, *args = n['inner']
        c = callee
        while c['kind'] in ('ImplicitCastExpr', 'ParenExpr'): c = c['inner'][0]
        if c['kind'] == 'DeclRefExpr':
            rd = c['referencedDecl']
            f = self.ix.fn_by_id.get(rd['id'])
            if f is not None and rd.get('kind') in ('FunctionDecl', 'CXXMethodDecl'):
                cname = self.fn_cname(f)
                if cname == self.cur.cname:
                    # self-recursion: the nested call goes to the stub <f>__rec, whose contract (given in the sidecar) is the
                    # function's own contract: induction on the recursion depth
                    cname += '__rec'; self.rule('recursive call -> <f>__rec (own contract, induction on depth)')
                params = [p for p in f.get('inner', []) if p.get('kind') == 'ParmVarDecl']
                cargs = []
                for i, a in enumerate(args):
                    self.default_arg_src = self.param_with_default(f, i) if a.get('kind') == 'CXXDefaultArgExpr' else None
                    cargs.append(self.arg(a, ct(params[i]) if i < len(params) else None, True))
                self.default_arg_src = None
                self.cur.callees.add(cname); self.rule('repo-call')
                rt = CType(f['type']['qualType'].split('(')[0].strip())
                s = '%s(%s)' % (cname, ', '.join(cargs))
                return '(*%s)' % s if rt.is_ref else s
            if rd.get('kind') in ('FunctionDecl', 'CXXMethodDecl'):
                qn = self.free_fn_name(c, rd)
                if qn in ('std_move', 'std_forward', 'std_as_const', 'qAsConst') or qn.endswith('as_const'):
                    self.rule('std::move/as_const dropped')
                    return self.e(args[0])
                if qn == 'std_find_if':
                    return self.find_if(n, args)
                if qn in ('std_sort', 'std_stable_sort') and len(args) == 3:
                    return self.std_sort(n, args, qn)
                args = self.drop_defaults(args)
                suffix = self.argsuffix(args)
                cname = '%s%s' % (qn, ('__' + suffix) if suffix else '')
                self.note_extern(cname, n)
                return self.call_result(n, '%s(%s)' % (cname, ', '.join(self.arg(a) for a in args)))
            if rd.get('kind') in ('VarDecl', 'ParmVarDecl'):
                # call through a function pointer / callable variable
                t = ct(c)
                cname = 'call_%s' % t.name
                self.note_extern(cname, n)
                return '%s(%s)' % (cname, ', '.join([self.e(c)] + [self.arg(a) for a in args]))
        raise Unsupported('call through %s (line %s)' % (c['kind'], src_line(n)))

    def free_fn_name(self, c, rd):
        """The nested-name-specifier is not in clang-14's JSON: the qualified spelling is read from
        the source text of the callee expression (QFile::remove, SimplePipelinePtr::create, std::sort)."""
        name = rd['name']
        txt = source_text(c)
        if txt:
            txt = re.sub(r'\s+', '', txt)
            targs = re.search(r'<(.*)>$', txt)
            txt = re.sub(r'<.*>$', '', txt)     # explicit template arguments of the call
            if targs and txt.split('::')[-1] in ('qobject_cast', 'dynamic_cast', 'static_cast', 'qSharedPointerCast', 'qSharedPointerDynamicCast', 'qSharedPointerObjectCast'):
                # casts: the target type is part of the model function's name
                return mangle_core(txt) + '_' + mangle_core(targs.group(1).replace('*', ' *')).replace(' ', '')
            if re.fullmatch(r'(::)?[A-Za-z_][A-Za-z0-9_]*(<[^()]*>)?(::[A-Za-z_][A-Za-z0-9_]*(<[^()]*>)?)*', txt) and txt.split('::')[-1].split('<')[0] == name.split('<')[0]:
                q = txt.lstrip(':')
                if '::' in q:
                    scope, _, last = q.rpartition('::')
                    return mangle_core(scope) + '_' + self.opname(last)
                if q in ('move', 'forward', 'as_const', 'find_if', 'sort'):
                    return 'std_' + q
                return mangle_core(q)
        if name in ('move', 'forward', 'as_const', 'find_if', 'sort', 'min', 'max'):
            return 'std_' + name
        return mangle_core(name)

    def e_CXXOperatorCallExpr(self, n):
        callee, *args = n['inner']
        d = callee
        while d['kind'] != 'DeclRefExpr':
            if not d.get('inner'):
                break
            d = d['inner'][0]
        # QStringLiteral: immediately invoked lambda declaring qstring_literal
        lit = self.qstring_literal(n)
        if lit is not None: return lit
        if d['kind'] != 'DeclRefExpr': raise Unsupported('operator call callee')
        rd = d['referencedDecl']; op = rd['name']
        if op == 'operator()' and args:
            obj = args[0]
            while obj.get('kind') in ('ImplicitCastExpr', 'ParenExpr'): obj = obj['inner'][0]
            lv = getattr(self, 'lambda_vars', {}).get((obj.get('referencedDecl') or {}).get('id')) if obj.get('kind') == 'DeclRefExpr' else None
            if lv:
                lname, caps = lv
                self.cur.callees.add(lname)
                lparams = getattr(self, 'lambda_params', {}).get(lname, [])
                cargs = []
                for i, a in enumerate(args[1:]):
                    self.default_arg_src = lparams[i] if a.get('kind') == 'CXXDefaultArgExpr' and i < len(lparams) else None     # a default argument of the lambda's own parameter
                    cargs.append(self.arg(a))
                self.default_arg_src = None
                return '%s(%s)' % (lname, ', '.join([c[2] for c in caps] + cargs))
        f = self.ix.fn_by_id.get(rd['id'])
        a0 = args[0]; t0 = ct(a0)
        if f is not None:
            cname = self.fn_cname(f)
            params = [p for p in f.get('inner', []) if p.get('kind') == 'ParmVarDecl']
            ismethod = f.get('kind') == 'CXXMethodDecl'
            cargs = []
            if ismethod:
                cargs.append(self.adjust_receiver(self.addr(a0), a0, None, f)); rest = args[1:]
            else:
                rest = args
            for i, a in enumerate(rest):
                cargs.append(self.arg(a, ct(params[i]) if i < len(params) else None, True))
            self.cur.callees.add(cname); self.rule('repo-call')
            rt = CType(f['type']['qualType'].split('(')[0].strip())
            s = '%s(%s)' % (cname, ', '.join(cargs))
            return '(*%s)' % s if rt.is_ref else s
        args = self.drop_defaults(args)
        ismethod = rd.get('kind') == 'CXXMethodDecl'
        if op == 'operator=' and ismethod and not self.is_repo_class(t0):
            rhs = args[1]
            if ct(rhs).name == t0.name:
                self.rule('value-assignment')
                return '(%s = %s)' % (self.e(a0), self.e(rhs))
        opn = self.opname(op)
        if ismethod:
            const_method = is_const(nodetype(a0)[0])
            recv = self.e(a0) if (const_method and not self.is_repo_class(t0)) else self.addr(a0)
            rest = args[1:]
            suffix = self.argsuffix(rest)
            cname = '%s_%s%s' % (t0.name, opn, ('__' + suffix) if suffix else '')
            self.note_extern(cname, n)
            return self.call_result(n, '%s(%s)' % (cname, ', '.join([recv] + [self.arg(a) for a in rest])))
        suffix = self.argsuffix(args)
        cname = '%s__%s' % (opn, suffix)
        self.note_extern(cname, n)
        return self.call_result(n, '%s(%s)' % (cname, ', '.join(self.arg(a) for a in args)))

    def qstring_literal(self, n):
        """QStringLiteral(x) expands to ([]() { ... qstring_literal ... }()) -> interned literal."""
        callee = n['inner'][1] if len(n['inner']) > 1 else None
        if callee is None: return None
        lam = callee
        while lam['kind'] in ('MaterializeTemporaryExpr', 'ImplicitCastExpr', 'ParenExpr', 'CXXBindTemporaryExpr', 'ExprWithCleanups'):
            lam = lam['inner'][0]
        if lam['kind'] != 'LambdaExpr': return None
        found = []
        def walk(x):
            if x.get('kind') == 'VarDecl' and x.get('name') == 'qstring_literal': found.append(x)
            for c in x.get('inner', []):
                if isinstance(c, dict): walk(c)
        walk(lam)
        if not found: return None
        strs = []
        def walk2(x):
            if x.get('kind') == 'StringLiteral': strs.append(x)
            for c in x.get('inner', []):
                if isinstance(c, dict): walk2(c)
        walk2(found[0])
        if not strs: raise Unsupported('QStringLiteral without string literal')
        text = decode_c_literal(strs[0]['value'])
        ident, h = lit_ident(text)
        self.lits[ident] = (h, text, len(text))
        self.rule('QStringLiteral')
        return 'QString_literal(%s, %d)' % (ident, len(text))

    def e_CXXConstructExpr(self, n):
        t = ct(n); args = n.get('inner', [])
        if self.is_repo_class(t) and t.name not in self.repo_value:
            # constructing a repo class object as a prvalue: materialise
            tmp = self.new_tmp()
            self.temps.append('%s;' % self.value_decl(t, tmp))
            return '(%s, %s)' % (self.ctor_call(t, '&' + tmp, n), tmp)
        args = self.drop_defaults(args)
        il = self.initlist_elems(args[0]) if len(args) == 1 else None
        if il is not None:
            # brace-initialised container: default-construct, then add the elements in order
            tmp = self.new_tmp()
            self.temps.append('%s;' % self.value_decl(t, tmp))
            c0 = '%s_ctor' % t.name; self.note_extern(c0, n)
            parts = ['%s = %s()' % (tmp, c0)]
            for el in il:
                et = ct(el)
                add = '%s_initlist_add__%s' % (t.name, et.name); self.note_extern(add, n)
                parts.append('%s(&%s, %s)' % (add, tmp, self.arg(el)))
            self.rule('brace-initialised container -> ctor + initlist_add per element')
            return '(' + ', '.join(parts + [tmp]) + ')'
        if not args:
            self.rule('ctor-default'); cname = '%s_ctor' % t.name
            self.note_extern(cname, n)
            return '%s()' % cname
        if len(args) == 1 and ct(args[0]).name == t.name and not ct(args[0]).is_ptr:
            self.rule('ctor-copy (value semantics)')
            return self.e(args[0])
        suffix = self.argsuffix(args)
        cname = '%s_ctor__%s' % (t.name, suffix)
        self.note_extern(cname, n)
        return '%s(%s)' % (cname, ', '.join(self.arg(a) for a in args))
    e_CXXTemporaryObjectExpr = e_CXXConstructExpr

    def initlist_elems(self, a):
        x = a
        while x['kind'] in ('ExprWithCleanups', 'MaterializeTemporaryExpr', 'CXXBindTemporaryExpr', 'ImplicitCastExpr'):
            x = x['inner'][0]
        if x['kind'] != 'CXXStdInitializerListExpr': return None
        y = x['inner'][0]
        while y['kind'] in ('MaterializeTemporaryExpr', 'CXXBindTemporaryExpr', 'ImplicitCastExpr', 'ExprWithCleanups'):
            y = y['inner'][0]
        if y['kind'] != 'InitListExpr': raise Unsupported('initializer_list without InitListExpr')
        return y.get('inner', [])

    def ctor_call(self, t, target, n):
        """Call of a repo class constructor on storage `target` (pointer expression)."""
        ctor = self.find_ctor(n)
        args = n.get('inner', [])
        if ctor is None:
            raise Unsupported('constructor of %s not found (line %s)' % (t.name, src_line(n)))
        cname = self.fn_cname(ctor)
        params = [p for p in ctor.get('inner', []) if p.get('kind') == 'ParmVarDecl']
        cargs = [target]
        for i, a in enumerate(args):
            self.default_arg_src = self.param_with_default(ctor, i) if a.get('kind') == 'CXXDefaultArgExpr' else None
            cargs.append(self.arg(a, ct(params[i]) if i < len(params) else None, True))
        self.default_arg_src = None
        self.cur.callees.add(cname); self.rule('repo-ctor-call')
        return '%s(%s)' % (cname, ', '.join(cargs))

    def find_ctor(self, n):
        t = ct(n); rq = self.rec_for(t)
        if rq is None: return None
        want = n.get('ctorType', {}).get('qualType')
        cands = [f for f in self.ix.fn_by_id.values() if f.get('kind') == 'CXXConstructorDecl' and self._qname_of(f).rsplit('::', 1)[0] == rq]
        for f in cands:
            if f['type']['qualType'] == want: return self.ix.fn_by_id.get(f['id'], f)
        return None

    def e_CXXDefaultArgExpr(self, n):
        inner = n.get('inner')
        if inner: return self.e(inner[0])
        d = getattr(self, 'default_arg_src', None)
        if d is not None:
            init = [c for c in d.get('inner', []) if isinstance(c, dict) and c.get('kind') and not c['kind'].endswith('Comment')]
            if init:
                self.rule('default argument of a repo callee taken from its declaration')
                return self.e(init[0])
        raise Unsupported('default argument of a repo callee is not in the AST dump (line %s)' % src_line(n))
    def param_with_default(self, f, i):
        """the ParmVarDecl #i (of this function node or of an earlier declaration of it) that carries the default argument"""
        seen = set(); cur = f
        while cur is not None and id(cur) not in seen:
            seen.add(id(cur))
            ps = [p for p in cur.get('inner', []) if p.get('kind') == 'ParmVarDecl']
            if i < len(ps) and any(isinstance(c, dict) and c.get('kind') and not c['kind'].endswith('Comment') for c in ps[i].get('inner', [])): return ps[i]
            cur = self.ix.decl_by_id.get(cur.get('previousDecl'))
        for g in self.ix.decl_by_id.values():
            if g.get('name') == f.get('name') and g.get('type', {}).get('qualType') == f.get('type', {}).get('qualType'):
                ps = [p for p in g.get('inner', []) if p.get('kind') == 'ParmVarDecl']
                if i < len(ps) and any(isinstance(c, dict) and c.get('kind') and not c['kind'].endswith('Comment') for c in ps[i].get('inner', [])): return ps[i]
        return None
    def e_CXXDefaultInitExpr(self, n):
        inner = n.get('inner')
        if inner: return self.e(inner[0])
        fld = self.cur_field
        if fld is not None:
            fd = self.ix.fields.get(fld['id'])
            if fd is not None:
                init = [c for c in fd.get('inner', []) if isinstance(c, dict) and c.get('kind') and not c['kind'].endswith('Comment')]
                if init: return self.e(init[0])
        raise Unsupported('CXXDefaultInitExpr without expression')
    def e_CXXScalarValueInitExpr(self, n): return '0'
    def e_ImplicitValueInitExpr(self, n): return '0'
    def e_InitListExpr(self, n):
        t = ct(n)
        if not n.get('inner'):
            if self.is_class_type(t):
                cname = '%s_ctor' % t.name; self.note_extern(cname, n); return '%s()' % cname
            return '0'
        raise Unsupported('InitListExpr of %s (line %s)' % (t.name, src_line(n)))

    def e_LambdaExpr(self, n):
        lname, caps = self.lower_lambda(n)
        self.lambda_ids = getattr(self, 'lambda_ids', [])
        if lname not in self.lambda_ids: self.lambda_ids.append(lname)
        self.rule('lambda used as a value -> closure id of the lowered lambda function')
        return 'lambda_value(LAMBDA_%s)' % lname
    def e_CXXNewExpr(self, n):
        if n.get('isArray') or n.get('isPlacement'):
            raise Unsupported('array/placement new (line %s)' % src_line(n))
        t = ct(n)                                  # pointer type
        obj = CType(t.core_cxx)
        ctor = [c for c in n.get('inner', []) if c.get('kind') in ('CXXConstructExpr',)]
        if self.is_repo_class(obj):
            if not ctor: raise Unsupported('new of a repo class without constructor call (line %s)' % src_line(n))
            self.rule('new T(args) of a repo class -> malloc + constructor')
            rq = self.rec_for(obj)
            if rq: self.need_struct(rq)
            return '({ %s *_n = VERIF_NEW(%s); %s; _n; })' % (obj.name, obj.name, self.ctor_call(obj, '_n', ctor[0]))
        args = self.drop_defaults(ctor[0].get('inner', [])) if ctor else []
        suffix = self.argsuffix(args)
        cname = '%s_new%s' % (obj.name, ('__' + suffix) if suffix else '')
        self.note_extern(cname, n)
        self.rule('new T(args) of an external class -> model')
        return '%s(%s)' % (cname, ', '.join(self.arg(a) for a in args))

    # ---- std::find_if
    def find_if(self, n, args):
        first, last, lam = args
        l = lam
        while l['kind'] != 'LambdaExpr':
            if not l.get('inner'): raise Unsupported('find_if predicate is not a lambda')
            l = l['inner'][0]
        lname, caps = self.lower_lambda(l)
        it = ct(first)
        fname = 'find_if_%s' % lname
        self.find_ifs.append((fname, lname, it, caps))
        self.cur.callees.add(fname)
        if fname not in self.fns:
            capdecl = ''.join(', ' + c[1] for c in caps)
            capuse = ''.join(c[0] + ', ' for c in caps)
            info = FnInfo(fname, n, self.cur.qname + '::<std::find_if #%s>' % lname.rsplit('_', 1)[-1])
            info.line = src_line(n); info.file = self.cur.file
            info.loops = [{'ordinal': 0, 'kind': 'while (std::find_if canonical loop)', 'line': src_line(n)}]
            info.callees = {lname}
            info.rules = {'std::find_if canonical loop': 1}
            info.proto = 'static %s %s(%s first, %s last%s)' % (it.name, fname, it.name, it.name, capdecl)
            info.text = (info.proto + '\n{\n    FIND_IF_REQUIRES(%s, first, last);\n'
                    '    while (%s_op_ne(first, last))\n    LOOP_%s_0\n    {\n'
                    '        if (%s(%s%s_op_deref_value(first))) return first;\n'
                    '        %s_op_inc(&first);\n    }\n    return last;\n}\n' % (it.name, it.name, fname, lname, capuse, it.name, it.name))
            info.is_find_if = True
            self.fns[fname] = info
        self.rule('std::find_if -> canonical loop with reachable-range precondition')
        capargs = [c[2] for c in caps]
        return '%s(%s)' % (fname, ', '.join([self.e(first), self.e(last)] + capargs))

    # ---- std::sort with a comparator lambda
    def std_sort(self, n, args, qn):
        """std::sort(first,last,cmp) -> generated function: the model picks an arbitrary (ghost) pair of elements of
        the range, the REAL comparator is evaluated on it in both orders, and the model's SORT_END states the
        obligation (comparator adequate for the order the caller relies on) and the effect (range sorted)."""
        first, last, lam = args
        l = lam
        while l['kind'] != 'LambdaExpr':
            if l['kind'] == 'DeclRefExpr' and (l.get('referencedDecl') or {}).get('kind') in ('FunctionDecl', 'CXXMethodDecl'):
                break
            if not l.get('inner'): raise Unsupported('std::sort comparator is neither a lambda nor a function')
            l = l['inner'][0]
        if l['kind'] == 'LambdaExpr':
            lname, caps = self.lower_lambda(l)
        else:
            # comparator given as a (static / free) function of the library: the same model, the function's lowered body is the comparator
            f = self.ix.fn_by_id.get(l['referencedDecl']['id'])
            if f is None: raise Unsupported('std::sort comparator function %s is not a library function with a body' % l['referencedDecl'].get('name'))
            lname = self.fn_cname(f); caps = []
            self.cur.callees.add(lname)
            self.rule('std::sort comparator is a named function')
        it = ct(first)
        fname = 'sort_%s' % lname
        self.cur.callees.add(fname)
        if fname not in self.fns:
            capdecl = ''.join(', ' + c[1] for c in caps)
            capuse = ''.join(c[0] + ', ' for c in caps)
            info = FnInfo(fname, n, self.cur.qname + '::<%s #%s>' % (qn.replace('_', '::'), lname.rsplit('_', 1)[-1]))
            info.line = src_line(n); info.file = self.cur.file
            info.callees = {lname}
            info.rules = {'std::sort -> comparator evaluated on a ghost pair + sort model': 1}
            info.proto = 'static void %s(%s first, %s last%s)' % (fname, it.name, it.name, capdecl)
            info.text = (info.proto + '\n{\n    SORT_BEGIN(%s, first, last);\n'
                         '    BOOL _ab = %s(%s_sort_a, _sort_b);\n    BOOL _ba = %s(%s_sort_b, _sort_a);\n    BOOL _aa = %s(%s_sort_a, _sort_a);\n'
                         '    SORT_END(%s, first, last, _ab, _ba, _aa);\n}\n' % (it.name, lname, capuse, lname, capuse, lname, capuse, it.name))
            info.is_find_if = True
            self.fns[fname] = info
        self.rule('std::sort -> sort model with comparator obligation')
        capargs = [c[2] for c in caps]
        return '%s(%s)' % (fname, ', '.join([self.e(first), self.e(last)] + capargs))

    def lower_lambda(self, l):
        """Emit the lambda body as a C function; returns (cname, captures[(name, decl, argexpr)])."""
        cls = [c for c in l['inner'] if c.get('kind') == 'CXXRecordDecl'][0]
        call = [m for m in cls.get('inner', []) if m.get('kind') == 'CXXMethodDecl' and m.get('name') == 'operator()']
        if not call:
            # generic lambda: take the instantiated specialisation
            for m in cls.get('inner', []):
                if m.get('kind') == 'FunctionTemplateDecl' and m.get('name') == 'operator()':
                    call = [x for x in m.get('inner', []) if x.get('kind') == 'CXXMethodDecl' and any(y.get('kind') == 'CompoundStmt' for y in x.get('inner', []))]
        if not call: raise Unsupported('lambda without call operator')
        call = call[-1]
        line = src_line(l)
        # named by ordinal inside the enclosing function (not by line: edits above must not rename it)
        k = 0
        while 'lambda_%s_%d' % (self.cur.cname, k) in self.lambda_names: k += 1
        lname = 'lambda_%s_%d' % (self.cur.cname, k)
        self.lambda_names.add(lname)
        caps = []
        fields = [c for c in cls.get('inner', []) if c.get('kind') == 'FieldDecl']
        capexprs = [c for c in l['inner'] if c.get('kind') not in ('CXXRecordDecl', 'CompoundStmt')]
        # captured variables: find DeclRefExprs in the body that refer to enclosing-function variables
        body = [c for c in call['inner'] if c.get('kind') == 'CompoundStmt'][0]
        params = [p for p in call['inner'] if p.get('kind') == 'ParmVarDecl']
        self.lambda_params = getattr(self, 'lambda_params', {}); self.lambda_params[lname] = params
        local_ids = set(p['id'] for p in params)
        collect_decl_ids(body, local_ids)
        captured = []
        uses_this = [False]
        def walk(x):
            if x.get('kind') == 'DeclRefExpr':
                rd = x['referencedDecl']
                if rd.get('kind') in ('VarDecl', 'ParmVarDecl') and rd['id'] not in local_ids and rd['id'] in self.scope_ids:
                    if rd['id'] not in [c['id'] for c in captured]: captured.append(rd)
            if x.get('kind') == 'CXXThisExpr': uses_this[0] = True
            for c in x.get('inner', []):
                if isinstance(c, dict): walk(c)
        walk(body)
        saved = (self.refs, self.temps, self.scope_ids, self.renames)
        self.refs = set(self.refs)
        cparams = []
        if uses_this[0]:
            cparams.append('%s *self' % self.self_type)
            caps.append(('self', '%s *self' % self.self_type, 'self'))
        for rd in captured:
            t = CType(rd['type']['qualType'], rd['type'].get('desugaredQualType'))
            nm = self.var_name(rd)
            # all captures are passed by pointer (by-value captures of const data are equivalent)
            argexpr = nm if rd['id'] in saved[0] else '&' + nm
            decl = '%s *%s' % (self.value_decl(t), nm)
            self.refs.add(rd['id'])
            cparams.append(decl); caps.append((nm, decl, argexpr))
        for p in params:
            cparams.append(self.param_decl(p))
        qt_ = call['type']['qualType']
        rt = CType(qt_.rsplit('->', 1)[1].strip() if ('->' in qt_ and qt_.strip().startswith('auto')) else qt_.split('(')[0].strip())
        fi_saved = self.cur
        info = FnInfo(lname, call, self.cur.qname + '::<lambda L%s>' % line)
        info.line = line; info.file = fi_saved.file
        self.cur = info
        self.temps = []
        text = self.s_body(body, '')
        proto = 'static %s %s(%s)' % (self.ctype_decl(rt), lname, ', '.join(cparams) or 'void')
        info.proto = proto; info.text = proto + '\n' + text
        self.fns[lname] = info
        self.cur = fi_saved
        fi_saved.callees.add(lname)
        self.refs, self.temps, self.scope_ids, self.renames = saved
        self.rule('lambda -> C function')
        return lname, caps

    # ------------------------------------------------------------------ statements
    def s(self, n, ind):
        k = n['kind']
        m = getattr(self, 's_' + k, None)
        if k != 'CompoundStmt':
            return self.line_directive(n) + self.s2(n, ind, m)
        return m(n, ind)

    def line_directive(self, n):
        r = n.get('range', {}).get('begin', {})
        r = r.get('expansionLoc', r)
        if r.get('line') and r.get('file'):
            return '#line %d "%s"\n' % (r['line'], r['file'])
        return ''

    def s2(self, n, ind, m):
        if m: return m(n, ind)
        # expression statement
        if ct(n).name.startswith('std_basic_ostream') or ct(n).name.startswith('basic_ostream'):
            if self.has_side_effects(n):
                raise Unsupported('stream output statement with side effects in its operands (line %s)' % src_line(n))
            self.rule('std::cerr/cout diagnostic statement dropped')
            return ind + ';   /* diagnostic stream output dropped */\n'
        mark = len(self.temps)
        x = self.e(n)
        return self.with_temps(mark, ind, ind + x + ';\n')

    def has_side_effects(self, n):
        k = n.get('kind')
        if k in ('CompoundAssignOperator', 'CXXNewExpr', 'CXXDeleteExpr'): return True
        if k == 'BinaryOperator' and n.get('opcode') == '=': return True
        if k == 'UnaryOperator' and n.get('opcode') in ('++', '--'): return True
        if k in ('CXXMemberCallExpr', 'CallExpr'):
            callee = n['inner'][0]
            while callee.get('kind') in ('ImplicitCastExpr', 'ParenExpr'): callee = callee['inner'][0]
            mid = callee.get('referencedMemberDecl') or (callee.get('referencedDecl') or {}).get('id')
            f = self.ix.fn_by_id.get(mid)
            if f is not None and not self.is_const_method(f): return True
            if f is None and k == 'CXXMemberCallExpr' and callee.get('kind') == 'MemberExpr':
                base = callee['inner'][0]
                if not (is_const(nodetype(base)[0]) or callee.get('name') in PURE_EXTERN_METHODS): return True
        return any(self.has_side_effects(c) for c in n.get('inner', []) if isinstance(c, dict))

    def with_temps(self, mark, ind, text):
        new = self.temps[mark:]
        del self.temps[mark:]
        if not new: return text
        return ind + '{ ' + ' '.join(new) + '\n' + text + ind + '}\n'

    def s_body(self, n, ind):
        return self.s_CompoundStmt(n, ind)

    def s_NullStmt(self, n, ind): return ind + ';\n'

    def s_DeclStmt(self, n, ind):
        out = ''
        for v in n['inner']:
            if v['kind'] in ('StaticAssertDecl', 'TypeAliasDecl', 'TypedefDecl', 'UsingDecl'): continue
            if v['kind'] != 'VarDecl': raise Unsupported('declaration kind %s' % v['kind'])
            out += self.vardecl(v, ind)
        return out

    def vardecl(self, v, ind):
        t = ct(v); name = self.var_name(v)
        self.scope_ids.add(v['id'])
        if self.cur is not None: self.cur.locals.add(name)
        init = [c for c in v.get('inner', []) if isinstance(c, dict) and c.get('kind') not in ('FullComment',)]
        mark = len(self.temps)
        static = v.get('storageClass') == 'static'
        if static and init and self.call_dependent(init[0]) and not (t.is_builtin and init[0]['kind'] in ('CXXBoolLiteralExpr', 'IntegerLiteral')):
            # a function-local static whose initialiser depends on this call's parameters / object / locals is initialised ONCE, by
            # whichever call comes first: model = unit-level variable + guard flag, both arbitrary at function entry
            g = '%s_%s' % (self.cur.cname, name)
            self.static_locals.append('static %s;' % self.value_decl(t, g)); self.static_locals.append('static int %s_initialised;' % g)
            self.renames[v['id']] = g
            self.rule('static local with call-dependent initialiser -> unit variable + once-guard')
            mark2 = len(self.temps)
            text = ind + 'if (!%s_initialised) { %s = %s; %s_initialised = 1; }\n' % (g, g, self.e(init[0]), g)
            return self.with_temps(mark2, ind, text)
        if static: self.rule('static-local with call-independent initialiser -> plain local (same value on every call; init guard dropped)')
        qt_ = (v.get('type') or {}).get('qualType', '')
        refarr = re.search(r'^(.*?)\s*\(&\)\[(\d+)\]$', qt_)
        if refarr and init:
            ets = refarr.group(1).strip()
            etn = 'cstr' if re.match(r'^(const )?char \*\s*(const)?$', ets) else CType(ets).name
            self.rule('reference to array -> pointer to its first element')
            return ind + '%s *%s = %s;\n' % (etn, name, self.e(init[0]))
        arr = re.search(r'\[(\d+)\]$', t.core_cxx)
        if arr:
            ets = t.core_cxx[:arr.start()].strip()
            etn = 'cstr' if re.match(r'^(const )?char \*\s*(const)?$', ets) else CType(ets).name
            il = init[0] if init else None
            while il is not None and il['kind'] in ('ExprWithCleanups',): il = il['inner'][0]
            if il is not None and il['kind'] == 'InitListExpr':
                # (static or automatic) array with a call-independent brace initialiser -> initialised local array
                mark3 = len(self.temps)
                try:
                    elems = [self.e(x) for x in il.get('inner', [])]
                    if len(self.temps) == mark3 and len(elems) == int(arr.group(1)):
                        self.rule('local array with brace initialiser -> initialised C array')
                        return ind + '%s %s[%s] = { %s };\n' % (etn, name, arr.group(1), ', '.join(elems))
                except Unsupported:
                    pass
                del self.temps[mark3:]
                self.rule('local array initialiser not lowered -> elements arbitrary')
            if static:
                # a function-local static array WITHOUT brace initialiser keeps its content between calls: unit-level array
                self.static_locals.append('static %s %s_%s[%s];' % (etn, self.cur.cname, name, arr.group(1)))
                self.renames[v['id']] = '%s_%s' % (self.cur.cname, name)
                return ''
            return ind + '%s %s[%s];\n' % (etn, name, arr.group(1))
        if static and t.is_builtin and init and init[0]['kind'] in ('CXXBoolLiteralExpr', 'IntegerLiteral'):
            g = '%s_%s' % (self.cur.cname, name)
            self.static_locals.append('static %s %s = %s;' % (t.name, g, self.e(init[0])))
            self.renames[v['id']] = g
            return ''
        if t.is_ref:
            i0 = init[0]
            core = i0
            while core['kind'] in ('ExprWithCleanups',): core = core['inner'][0]
            binds_temp = core['kind'] == 'MaterializeTemporaryExpr' or not self.is_lvalue(core)
            const = is_const(t.q)
            if const and self.is_class_type(t) and not self.is_repo_class(t) and self.is_extern_call(core):
                binds_temp = True       # the model function returns the (immutable) value, not a reference
            vt = t
            # a const reference bound to a temporary (or to a scalar) is a copy; bound to an lvalue it stays an
            # alias (pointer), so that mutations of the referenced object through other paths are seen
            if binds_temp or (const and not self.is_class_type(vt)):
                self.rule('const-reference local bound to a temporary/scalar -> copy')
                text = ind + '%s = %s;\n' % (self.value_decl(t, name), self.e(i0))
                return self.with_temps_decl(mark, ind, text)
            self.refs.add(v['id']); self.rule('reference local -> pointer')
            text = ind + '%s = %s;\n' % (self.ctype_decl(t, name), self.addr(i0))
            return self.with_temps_decl(mark, ind, text)
        if self.is_class_type(t) and self.is_repo_class(t) and t.name not in self.repo_value:
            rq_ = self.rec_for(t)
            if rq_: self.need_struct(rq_)
            out = ind + '%s;\n' % self.value_decl(t, name)
            if init:
                i0 = init[0]
                while i0['kind'] in ('ExprWithCleanups', 'CXXBindTemporaryExpr', 'MaterializeTemporaryExpr'): i0 = i0['inner'][0]
                if i0['kind'] in ('CXXConstructExpr', 'CXXTemporaryObjectExpr'):
                    out += ind + self.ctor_call(t, '&' + name, i0) + ';\n'
                else:
                    out += ind + '%s = %s;\n' % (name, self.e(i0))
            return self.with_temps_decl(mark, ind, out)
        if not init:
            if self.cur is not None: self.cur.local_decls[name] = self.value_decl(t)
            if self.is_class_type(t):
                cname = '%s_ctor' % t.name; self.note_extern(cname, v)
                return ind + '%s = %s();\n' % (self.value_decl(t, name), cname)
            return ind + '%s;\n' % self.value_decl(t, name)
        lam = init[0]
        while lam.get('kind') in ('ExprWithCleanups', 'CXXConstructExpr', 'MaterializeTemporaryExpr', 'ImplicitCastExpr', 'CXXBindTemporaryExpr') and lam.get('inner'): lam = lam['inner'][0]
        if lam.get('kind') == 'LambdaExpr':
            lname, caps = self.lower_lambda(lam)
            self.lambda_vars = getattr(self, 'lambda_vars', {}); self.lambda_vars[v['id']] = (lname, caps)
            self.rule('local lambda variable -> direct calls of the lowered lambda function')
            return ind + '/* lambda %s = %s */\n' % (name, lname)
        text = ind + '%s = %s;\n' % (self.value_decl(t, name), self.e(init[0]))
        if self.cur is not None and not static: self.cur.local_decls[name] = self.value_decl(t)
        text = self.raii(v, t, name, ind, text)
        return self.with_temps_decl(mark, ind, text)

    def side_effect_free(self, n):
        k = n.get('kind')
        if k in ('CallExpr', 'CXXMemberCallExpr', 'CXXOperatorCallExpr', 'CXXConstructExpr', 'LambdaExpr', 'CompoundAssignOperator', 'CXXNewExpr'): return False
        if k == 'UnaryOperator' and n.get('opcode') in ('++', '--'): return False
        if k == 'BinaryOperator' and n.get('opcode') == '=': return False
        return all(self.side_effect_free(c) for c in n.get('inner', []) if isinstance(c, dict))

    def literal_only(self, n):
        k = n.get('kind')
        if k in ('IntegerLiteral', 'CharacterLiteral', 'StringLiteral', 'CXXBoolLiteralExpr', 'FloatingLiteral'): return True
        if k in ('DeclRefExpr', 'CXXThisExpr', 'CallExpr', 'CXXMemberCallExpr', 'LambdaExpr'): return False
        inner = [c for c in n.get('inner', []) if isinstance(c, dict) and c.get('kind')]
        return bool(inner) and all(self.literal_only(c) for c in inner)

    def call_dependent(self, n):
        """does the expression read a parameter, a local variable or *this (so that its value can differ between calls)?"""
        k = n.get('kind')
        if k == 'CXXThisExpr': return True
        if k == 'DeclRefExpr':
            rd = n.get('referencedDecl', {})
            if rd.get('kind') == 'ParmVarDecl': return True
            if rd.get('kind') == 'VarDecl' and rd.get('id') in self.scope_ids: return True
        if k == 'LambdaExpr': return False
        return any(self.call_dependent(c) for c in n.get('inner', []) if isinstance(c, dict))

    def is_extern_call(self, n):
        while n.get('kind') in ('ImplicitCastExpr', 'ParenExpr', 'ExprWithCleanups'): n = n['inner'][0]
        if n.get('kind') not in ('CXXMemberCallExpr', 'CXXOperatorCallExpr', 'CallExpr'): return False
        c = n['inner'][0]
        while c.get('kind') in ('ImplicitCastExpr', 'ParenExpr'): c = c['inner'][0]
        mid = c.get('referencedMemberDecl') or (c.get('referencedDecl') or {}).get('id')
        return self.ix.fn_by_id.get(mid) is None

    def with_temps_decl(self, mark, ind, text):
        # temporaries used by a declaration's initialiser must live in the enclosing block
        new = self.temps[mark:]
        del self.temps[mark:]
        return ''.join(ind + d + '\n' for d in new) + text

    def raii(self, v, t, name, ind, text):
        if t.name in RAII_TYPES:
            self.raii_stack[-1].append((t.name, name))
            self.rule('RAII local: destructor at every scope exit')
        return text

    def raii_exit(self, ind, depth_from):
        """Destructor calls for RAII locals of scopes [depth_from:], innermost first."""
        out = ''
        for scope in reversed(self.raii_stack[depth_from:]):
            for tn, nm in reversed(scope):
                cname = '%s_dtor' % tn
                self.cur.callees.add(cname); self.extern_calls.setdefault(cname, None)
                out += ind + '%s(&%s);\n' % (cname, nm)
        return out

    def s_CompoundStmt(self, n, ind):
        self.raii_stack.append([])
        out = ind + '{\n'
        falls = True
        for c in n.get('inner', []):
            out += self.s(c, ind + '    ')
        last = n.get('inner', [])[-1] if n.get('inner') else None
        if last is None or last['kind'] not in ('ReturnStmt', 'BreakStmt', 'ContinueStmt'):
            out += self.raii_exit(ind + '    ', len(self.raii_stack) - 1)
        self.raii_stack.pop()
        return out + ind + '}\n'

    def s_IfStmt(self, n, ind):
        inner = n['inner']
        mark = len(self.temps)
        pre = ''
        if n.get('hasVar'):
            # if (auto x = init) ...
            decl = inner[0]
            pre = self.s(decl, ind + '    ')
            vname = self.var_name(decl['inner'][0])
            cond = inner[1]; rest = inner[2:]
            condtxt = self.e(cond)
        elif n.get('hasInit'):
            pre = self.s(inner[0], ind + '    ')
            cond = inner[1]; rest = inner[2:]
            condtxt = self.e(cond)
        else:
            cond = inner[0]; rest = inner[1:]
            condtxt = self.e(cond)
        th = rest[0]; el = rest[1:]
        out = '%sif (%s)\n' % (ind + ('    ' if pre else ''), condtxt) + self.blockify(th, ind + ('    ' if pre else ''))
        if el: out += ind + ('    ' if pre else '') + 'else\n' + self.blockify(el[0], ind + ('    ' if pre else ''))
        if pre: out = ind + '{\n' + pre + out + ind + '}\n'
        return self.with_temps(mark, ind, out)

    def blockify(self, n, ind):
        if n['kind'] == 'CompoundStmt': return self.s(n, ind)
        self.raii_stack.append([])
        r = ind + '{\n' + self.s(n, ind + '    ') + ind + '}\n'
        self.raii_stack.pop()
        return r

    def s_ReturnStmt(self, n, ind):
        mark = len(self.temps)
        pre = self.raii_exit(ind, 0)
        if n.get('inner'):
            x = n['inner'][0]
            if self.ret_ref:
                val = self.addr(x)
            else:
                val = self.e(x)
            if pre:
                # evaluate the value before running destructors
                out = ind + '{ %s = %s;\n' % (self.ret_decl('_ret'), val) + pre + ind + 'return _ret; }\n'
            else:
                out = ind + 'return %s;\n' % val
        else:
            out = pre + ind + 'return;\n'
        return self.with_temps(mark, ind, out)
    def ret_decl(self, name):
        return self.ret_ctype + ' ' + name if not self.ret_ctype.endswith('*') else self.ret_ctype + name

    def s_BreakStmt(self, n, ind):
        return self.raii_exit(ind, self.loop_depth[-1]) + ind + 'break;\n'
    def s_ContinueStmt(self, n, ind):
        return self.raii_exit(ind, self.loop_depth[-1]) + ind + 'continue;\n'

    def loop_slot(self, kind, n):
        k = len(self.cur.loops)
        self.cur.loops.append({'ordinal': k, 'kind': kind, 'line': src_line(n)})
        return 'LOOP_%s_%d' % (self.cur.cname, k)

    def s_WhileStmt(self, n, ind):
        cond, body = n['inner'][-2], n['inner'][-1]
        slot = self.loop_slot('while', n)
        mark = len(self.temps)
        c = self.e(cond)
        self.loop_depth.append(len(self.raii_stack))
        pre_locals = dict(self.cur.local_decls)
        b = self.blockify(body, ind)
        self.loop_depth.pop()
        if (self.cur.cname, slot.rsplit('_', 1)[1]) in getattr(self, 'loopbody_requests', set()):
            if len(self.temps) != mark: raise Unsupported('loop body extraction: the loop guard needs temporaries')
            self.extract_loop_body(n, body, slot.rsplit('_', 1)[1], c, b, pre_locals)
        out = '%swhile (%s)\n%s%s\n%s' % (ind, c, ind, slot, b)
        return self.with_temps(mark, ind, out)

    def extract_loop_body(self, n, body, k, cond_text, body_text, pre_locals):
        """//@ loopbody <fn> <k>: the body of the k-th loop (a while loop) of fn, VERBATIM as lowered, as a function of its own
        <fn>_loop<k>_body(<fn's parameters>, <pointer to every plain local declared before the loop>), so that a STEP contract
        (requires: loop guard and invariant; ensures: what one iteration does, with __CPROVER_old) can be enforced on it.
        'continue' (bound to this loop) becomes 'return'.  Refused when the body contains a nested loop, 'break', 'return' or a switch
        (their control flow would not survive the extraction).  The loop guard is emitted as <fn>_loop<k>_guard(...) ."""
        def bad(x):
            kd = x.get('kind')
            if kd in ('ForStmt', 'WhileStmt', 'DoStmt', 'CXXForRangeStmt', 'BreakStmt', 'ReturnStmt', 'SwitchStmt', 'GotoStmt'): return kd
            for ch in x.get('inner', []):
                if isinstance(ch, dict) and ch.get('kind') != 'LambdaExpr':
                    r = bad(ch)
                    if r: return r
            return None
        why = bad(body)
        if why: raise Unsupported('loop body extraction: the body of loop %s of %s contains %s' % (k, self.cur.cname, why))
        parent = self.cur
        cname = '%s_loop%s_body' % (parent.cname, k)
        info = FnInfo(cname, parent.node, parent.qname + '/loop%s/body' % k)
        info.line = src_line(n); info.file = parent.file
        info.callees = parent.callees        # shared: callees of the whole function (on-demand lowering covers the body's)
        info.is_loop_body = True
        extra = ['%s *%s_p' % (t, nm) for nm, t in pre_locals.items()]
        params = list(self.cur_params) + extra
        defs = ''.join('#define %s (*%s_p)\n' % (nm, nm) for nm in pre_locals)
        undefs = ''.join('#undef %s\n' % nm for nm in pre_locals)
        txt = re.sub(r'\bcontinue;', 'return;', body_text)
        info.proto = 'void %s(%s)' % (cname, ', '.join(params) or 'void')
        info.text = defs + info.proto + '\n' + txt + undefs
        ginfo = FnInfo('%s_loop%s_guard' % (parent.cname, k), parent.node, parent.qname + '/loop%s/guard' % k)
        ginfo.line = src_line(n); ginfo.file = parent.file; ginfo.callees = parent.callees; ginfo.is_loop_body = True
        ginfo.proto = 'BOOL %s_loop%s_guard(%s)' % (parent.cname, k, ', '.join(params) or 'void')
        ginfo.text = defs + ginfo.proto + '\n{\n    return (%s) != 0;\n}\n' % cond_text + undefs
        self.fns[cname] = info; self.fns[ginfo.cname] = ginfo
        self.rule('loop body extracted as a function for a step contract (//@ loopbody)')
    def s_DoStmt(self, n, ind):
        body, cond = n['inner']
        slot = self.loop_slot('do', n)
        mark = len(self.temps)
        self.loop_depth.append(len(self.raii_stack))
        b = self.blockify(body, ind)
        self.loop_depth.pop()
        def binds_continue(x, top=True):
            k = x.get('kind')
            if k == 'ContinueStmt': return True
            if not top and k in ('ForStmt', 'WhileStmt', 'DoStmt', 'CXXForRangeStmt', 'LambdaExpr'): return False
            return any(binds_continue(c, False) for c in x.get('inner', []) if isinstance(c, dict))
        mark_c = len(self.temps)
        ce = self.e(cond)
        if not binds_continue(body) and len(self.temps) == mark_c:
            # do S while (c)  ==  for (;;) { S; if (!(c)) break; }   (no 'continue' binds to this loop): the back edge is then
            # taken only when the loop continues, which is where CBMC checks the invariant step and the decreases clause
            self.rule('do-while -> for(;;) { body; if (!cond) break; }')
            out = '%sfor (;;)\n%s\n%s{\n%s%s    if (!(%s)) break;\n%s}\n' % (ind, ind + slot, ind, b, ind, ce, ind)
            return self.with_temps(mark, ind, out)
        out = '%sdo\n%s%s\n%swhile (%s);\n' % (ind, ind + slot + '\n', b, ind, ce)
        return self.with_temps(mark, ind, out)
    def s_ForStmt(self, n, ind):
        init, _condvar, cond, inc, body = n['inner']
        slot = self.loop_slot('for', n)
        mark = len(self.temps)
        out = ind + '{\n'
        if init and init.get('kind'):
            out += self.s(init, ind + '    ')
        c = self.e(cond) if cond and cond.get('kind') else '1'
        i = self.e(inc) if inc and inc.get('kind') else ''
        self.loop_depth.append(len(self.raii_stack))
        b = self.blockify(body, ind + '    ')
        self.loop_depth.pop()
        out += '%s    for (; %s; %s)\n%s    %s\n%s' % (ind, c, i, ind, slot, b)
        out += ind + '}\n'
        return self.with_temps(mark, ind, out)
    def s_CXXForRangeStmt(self, n, ind):
        init, rng, beg, end, cond, inc, var, body = n['inner']
        slot = self.loop_slot('range-for', n)
        self.rule('range-for (clang desugaring)')
        mark = len(self.temps)
        out = ind + '{\n'
        if init and init.get('kind'): out += self.s(init, ind + '    ')
        out += self.s(rng, ind + '    ') + self.s(beg, ind + '    ') + self.s(end, ind + '    ')
        c = self.e(cond); i = self.e(inc)
        self.loop_depth.append(len(self.raii_stack))
        self.raii_stack.append([])
        b = ind + '    {\n' + self.s(var, ind + '        ')
        if body['kind'] == 'CompoundStmt':
            for ch in body.get('inner', []): b += self.s(ch, ind + '        ')
        else:
            b += self.s(body, ind + '        ')
        b += ind + '    }\n'
        self.raii_stack.pop()
        self.loop_depth.pop()
        out += '%s    for (; %s; %s)\n%s    %s\n%s' % (ind, c, i, ind, slot, b)
        out += ind + '}\n'
        return self.with_temps(mark, ind, out)

    def s_SwitchStmt(self, n, ind):
        cond, body = n['inner'][-2], n['inner'][-1]
        self.loop_depth.append(len(self.raii_stack))
        out = '%sswitch (%s)\n' % (ind, self.e(cond)) + self.s(body, ind)
        self.loop_depth.pop()
        return out
    def s_CaseStmt(self, n, ind):
        inner = [c for c in n['inner'] if c.get('kind')]
        val, sub = inner[0], inner[-1]
        return '%scase %s:\n' % (ind, self.e(val)) + self.s(sub, ind + '    ')
    def s_DefaultStmt(self, n, ind):
        return '%sdefault:\n' % ind + self.s(n['inner'][0], ind + '    ')

    # ------------------------------------------------------------------ functions
    def param_decl(self, p):
        t = ct(p); name = self.var_name(p) if p.get('name') else '_anon%s' % p['id'][-4:]
        self.scope_ids.add(p['id'])
        if t.is_ref:
            const = is_const(t.q)
            if self.is_class_type(t) and self.is_repo_class(t) and t.name not in self.repo_value:
                self.refs.add(p['id'])
                return self.ctype_decl(t, name)
            if const:
                return self.value_decl(t, name)       # const T& of model value / scalar -> by value
            self.refs.add(p['id'])
            return self.ctype_decl(t, name)
        if self.is_class_type(t) and self.is_repo_class(t) and t.name not in self.repo_value:
            self.refs.add(p['id'])
            return self.value_decl(t) + ' *' + name
        return self.value_decl(t, name)

    def lower_function(self, f):
        if has_errors(f):
            raise Unsupported('AST of %s contains error nodes' % f.get('_qname'))
        cname = self.fn_cname(f)
        if cname in self.fns: return self.fns[cname]
        info = FnInfo(cname, f, self._qname_of(f))
        info.line = f.get('loc', {}).get('line') or src_line(f)
        loc = f.get('loc', {})
        info.file = loc.get('file') or loc.get('expansionLoc', {}).get('file')
        self.fns[cname] = info
        self.cur = info
        self.refs = set(); self.temps = []; self.scope_ids = set(); self.renames = {}
        self.raii_stack = []; self.loop_depth = [0]
        self.cur_field = None
        self.find_ifs = getattr(self, 'find_ifs', [])
        self.lambda_names = getattr(self, 'lambda_names', set())
        kind = f['kind']
        scope = self._qname_of(f).rsplit('::', 1)[0] if '::' in self._qname_of(f) else ''
        prev = self.ix.decl_by_id.get(f.get('previousDecl')) or {}
        is_static = f.get('storageClass') == 'static' or prev.get('storageClass') == 'static'      # 'static' is written on the in-class declaration only
        is_member = kind in ('CXXMethodDecl', 'CXXConstructorDecl', 'CXXDestructorDecl') and not is_static
        params = []
        if is_member:
            self.self_type = mangle_core(scope)
            self.need_struct(scope)
            params.append('%s *self' % self.self_type)
        for p in f.get('inner', []):
            if p.get('kind') == 'ParmVarDecl':
                params.append(self.param_decl(p))
        self.cur_params = list(params)
        rts = f['type']['qualType'].replace('(anonymous namespace)::', '').split('(')[0].strip()
        if kind in ('CXXConstructorDecl', 'CXXDestructorDecl'): rts = 'void'
        rt = CType(rts, None)
        dq = f['type'].get('desugaredQualType')
        if dq: rt = CType(rts, dq.replace('(anonymous namespace)::', '').split('(')[0].strip())
        self.ret_ref = rt.is_ref
        self.ret_ctype = self.ctype_decl(rt)
        body = [c for c in f.get('inner', []) if c.get('kind') == 'CompoundStmt']
        text = ''
        if kind == 'CXXConstructorDecl':
            text += self.ctor_inits(f, scope)
        if body:
            btxt = self.s(body[0], '')
        elif kind == 'CXXConstructorDecl' and len(params) == 2 and self.sig_suffix(f) == self.self_type and not text:
            self.rule('implicit copy/move constructor -> memberwise struct copy')
            pn = params[1].split('*')[-1].strip()
            btxt = '{\n    *self = *%s;\n}\n' % pn
        elif kind == 'CXXConstructorDecl' and any(c.get('kind') == 'CXXCtorInitializer' for c in f.get('inner', [])):
            btxt = '{\n}\n'
        else:
            raise Unsupported('%s has no body in the AST' % info.qname)
        if text:
            btxt = '{\n' + text + btxt + '}\n'
        proto = '%s %s(%s)' % (self.ret_ctype, cname, ', '.join(params) or 'void')
        info.proto = proto
        info.text = proto + '\n' + btxt
        self.cur = None
        return info

    def ctor_inits(self, f, scope):
        out = ''
        inits = [c for c in f.get('inner', []) if c.get('kind') == 'CXXCtorInitializer']
        for ci in inits:
            expr = ci['inner'][0] if ci.get('inner') else None
            mark = len(self.temps)
            if 'anyInit' in ci:
                fld = ci['anyInit']; ft = CType(fld['type']['qualType'], fld['type'].get('desugaredQualType'))
                tgt = 'self->%s' % fld['name']
                self.cur_field = fld
                if expr is None: continue
                if expr['kind'] == 'CXXDefaultInitExpr': self.rule('member default initialiser')
                if self.is_class_type(ft) and self.is_repo_class(ft) and ft.name not in self.repo_value:
                    e0 = expr
                    while e0['kind'] in ('ExprWithCleanups', 'CXXBindTemporaryExpr'): e0 = e0['inner'][0]
                    line = '    ' + self.ctor_call(ft, '&' + tgt, e0) + ';\n'
                else:
                    line = '    %s = %s;\n' % (tgt, self.e(expr))
                out += self.with_temps(mark, '    ', line)
            elif 'baseInit' in ci:
                bt = CType(ci['baseInit']['qualType'], ci['baseInit'].get('desugaredQualType'))
                if self.is_repo_class(bt):
                    e0 = expr
                    while e0['kind'] in ('ExprWithCleanups', 'CXXBindTemporaryExpr'): e0 = e0['inner'][0]
                    line = '    ' + self.ctor_call(bt, '&self->_base', e0) + ';\n'
                else:
                    line = '    self->_base = %s;\n' % self.e(expr)
                out += self.with_temps(mark, '    ', line)
            else:
                raise Unsupported('constructor initialiser kind')
        self.rule('ctor-initialisers -> assignments in declaration order')
        return out

    # ------------------------------------------------------------------ output
    def emit_find_ifs(self):
        out = ''
        seen = set()
        for fname, lname, it, caps in self.find_ifs:
            if fname in seen: continue
            seen.add(fname)
            capdecl = ''.join(', ' + c[1] for c in caps)
            capuse = ''.join(c[0] + ', ' for c in caps)
            out += ('static %s %s(%s first, %s last%s)\n' % (it.name, fname, it.name, it.name, capdecl) +
                    '{\n    FIND_IF_REQUIRES(%s, first, last);\n'
                    '    while (%s_op_ne(first, last))\n    LOOP_%s_0\n    {\n'
                    '        if (%s(%s%s_op_deref_value(first))) return first;\n'
                    '        %s_op_inc(&first);\n    }\n    return last;\n}\n' % (it.name, it.name, fname, lname, capuse, it.name, it.name))
        return out

ENUM_MODEL_TYPES = {'QtMsgType', 'Handler_HandlerType', 'QIODevice_OpenModeFlag', 'QDir_Filter', 'QDir_SortFlag',
                    'Qt_CaseSensitivity', 'Qt_DateFormat', 'QEvent_Type', 'Qt_SplitBehaviorFlags', 'QJsonDocument_JsonFormat',
                    'QEvent_Type', 'Qt_EventPriority', 'QSettings_Format', 'QUuid_StringFormat', 'Qt_TimeSpec'}
OBJECT_TYPES = {'QFile', 'QFileDevice', 'QIODevice', 'QSaveFile', 'QObject', 'QThread', 'QCoreApplication', 'QMutex', 'QRecursiveMutex',
                'QTextStream', 'QSettings', 'QEvent', 'QNetworkAccessManager', 'QNetworkReply'}
CONST_OVERLOADED = {'unicode'}
PURE_EXTERN_METHODS = {'toStdString', 'errorString', 'fileName', 'toUtf8', 'toLocal8Bit', 'size', 'constData', 'data', 'c_str', 'toString'}
ITER_METHODS = {'begin', 'end', 'cbegin', 'cend', 'constBegin', 'constEnd', 'rbegin', 'rend', 'crbegin', 'crend'}
RAII_TYPES = {'QMutexLocker', 'QMutexLocker_QMutex', 'QMutexLocker_QRecursiveMutex', 'std_unique_lock_QRecursiveMutex', 'std_unique_lock_QMutex',
              'std_lock_guard_QRecursiveMutex', 'std_lock_guard_QMutex', 'std_scoped_lock_QRecursiveMutex', 'std_scoped_lock_QMutex', 'QReadLocker', 'QWriteLocker'}
C_KEYWORDS = {'stdout', 'stderr', 'stdin', 'register', 'restrict', 'auto', 'default', 'signed', 'unsigned', 'inline'}

_src_cache = {}
def source_text(n):
    r = n.get('range', {})
    b, e = r.get('begin', {}), r.get('end', {})
    b = b.get('spellingLoc', b); e = e.get('spellingLoc', e)
    f = b.get('file')
    if not f or f != e.get('file') or 'offset' not in b or 'offset' not in e: return None
    if f not in _src_cache:
        try: _src_cache[f] = open(f, 'rb').read()
        except OSError: return None
    return _src_cache[f][b['offset']:e['offset'] + e.get('tokLen', 0)].decode('utf-8', 'replace')

def split_ptr(nt):
    q, d = nt
    s = (d or q).strip()
    if s.endswith('*'): return s[:-1]
    if s.endswith('*const'): return s[:-6]
    return s

def balanced(s):
    d = 0
    for ch in s:
        if ch == '(': d += 1
        elif ch == ')':
            d -= 1
            if d < 0: return False
    return d == 0

def collect_decl_ids(n, out):
    if n.get('kind') in ('VarDecl', 'ParmVarDecl'): out.add(n['id'])
    for c in n.get('inner', []):
        if isinstance(c, dict): collect_decl_ids(c, out)

def decode_c_literal(raw):
    """clang prints the literal as written in source (with prefix u/U/L/u8 and escapes)."""
    s = raw
    m = re.match(r'^(u8|u|U|L|R)?"', s)
    if s.startswith('R"') or s.startswith('u8R"') or s.startswith('uR"'):
        m2 = re.match(r'^(?:u8|u|U|L)?R"([^(]*)\((.*)\)\1"$', s, re.S)
        if m2: return m2.group(2)
    if m: s = s[m.end() - 1:]
    if s.startswith('"') and s.endswith('"'): s = s[1:-1]
    out = ''; i = 0
    simple = {'n': '\n', 't': '\t', 'r': '\r', '0': '\0', '\\': '\\', '"': '"', "'": "'", 'a': '\a', 'b': '\b', 'f': '\f', 'v': '\v', '?': '?'}
    while i < len(s):
        ch = s[i]
        if ch == '\\' and i + 1 < len(s):
            c2 = s[i + 1]
            if c2 == 'x':
                j = i + 2
                while j < len(s) and s[j] in '0123456789abcdefABCDEF': j += 1
                out += chr(int(s[i + 2:j], 16)); i = j; continue
            if c2 in '01234567':
                j = i + 1
                while j < len(s) and j < i + 4 and s[j] in '01234567': j += 1
                out += chr(int(s[i + 1:j], 8)); i = j; continue
            if c2 == 'u':
                out += chr(int(s[i + 2:i + 6], 16)); i += 6; continue
            out += simple.get(c2, c2); i += 2; continue
        out += ch; i += 1
    return out
