"""Property-level orchestration: run all units of a property, guard, classify failures, replay, evidence."""
import glob, hashlib, importlib.util, json, os, re, subprocess, sys, time
from concurrent.futures import ThreadPoolExecutor
from . import cxxast, engine

VERIF = cxxast.VERIF
PROPS = {}
for _l in open(os.path.join(VERIF, 'properties.jsonl')):
    if _l.strip():
        _p = json.loads(_l); PROPS[_p['id']] = _p

FALLBACK_UNWIND = 4
# properties whose statement is only partly carried by contracts (parser grammar, JSON/regex engines, list abstractions) and whose native
# driver is deterministic and takes seconds: its bounded search on the real code also runs in the quick tier (labelled bounded in the
# evidence under native_search, never counted as discharged; a failing input it finds is a VIOLATION)
QUICK_NATIVE = {'C01', 'C12', 'C13', 'C15', 'C16', 'C17', 'C18'}
GLOBAL_ASSUMPTIONS = [
    'clang-14 AST of the translation units (Linux, Qt 5.15.8, QTLOGGER_STATIC, QTLOGGER_SYSLOG, threads on) is a faithful reading of what g++-12 compiles; other #if branches are not covered',
    'the lowering rules of DESIGN 2.2 implement C++ semantics (range-for order, RAII scope exit, member-initialiser order, value semantics of implicitly shared Qt types, const references to Qt value types as copies)',
    'every function in models/ and every bodyless contract in a sidecar part 1 is an assumed contract of Qt/std/OS (trusted, not proved)',
    'allocation never fails; machine integers are bit-precise (CBMC), no mathematical-integer idealisation',
    'no thread interleavings: contracts are sequential',
]

def load_findings():
    p = os.path.join(VERIF, 'known_findings.json')
    if os.path.exists(p): return json.load(open(p))
    return {'findings': [], 'fixed': []}

def loc_of(r):
    sl = r.get('sourceLocation', {}) or {}
    return sl.get('file'), sl.get('line'), sl.get('function')

def obligation_record(unit, proof, r):
    f, l, fn = loc_of(r)
    return {'unit': unit.name, 'proof': proof.target, 'obligation': r.get('property'), 'description': r.get('description'),
            'status': r.get('status'), 'file': f, 'line': l, 'function': fn}

def match_finding(findings, prop, proof, r):
    for kf in findings:
        if kf.get('property') != prop: continue
        if kf.get('proof') and kf['proof'] != proof.target: continue
        if re.search(kf['obligation'], r.get('property', '') + ' ' + r.get('description', '')):
            return kf
    return None

def machinery_failure(r):
    """An arithmetic/pointer safety check that fails inside the text of a contract or a model
    (file under /verif) is a bug of the machinery (unguarded arithmetic in a spec), never a verdict."""
    f, l, fn = loc_of(r)
    prop = r.get('property', '')
    kind = prop.split('.')[-2] if prop.count('.') >= 2 else ''
    if f and (f.startswith(VERIF) or f.startswith('contracts/') or f.startswith('models/')) and kind in ('overflow', 'pointer_dereference', 'pointer_arithmetic', 'undefined-shift', 'division-by-zero', 'conversion', 'array_bounds', 'pointer_primitives', 'pointer'):
        return True
    return False

def standin(u, p):
    """bounded stand-in for a proof whose loop contracts do not fit the code: no loop contracts, every loop unwound FALLBACK_UNWIND times"""
    p3 = engine.Proof(p.kind, p.target, dict(p.opts, fallback_unwind=str(FALLBACK_UNWIND), canary='0'))
    try: u.prove(p3)
    except Exception as e: p3.status = 'UNDECIDED'; p3.reason = 'internal error: %r' % e
    def mach3(x):
        # in the stand-in run a frame failure located in a MODEL (a model writing a ghost cell that the function's contract does
        # not list) is a gap of the sidecar for the new code shape, not a verdict about the code
        f_, _, _ = loc_of(x)
        return machinery_failure(x) or ('.assigns.' in x.get('property', '') and f_ and (f_.startswith(VERIF) or f_.startswith('contracts/') or f_.startswith('models/')))
    f3 = [x for x in p3.results if x['status'] != 'SUCCESS' and not mach3(x)]
    clean = p3.status != 'UNDECIDED' and bool(p3.results) and not f3 and not any(mach3(x) for x in p3.results if x['status'] != 'SUCCESS')
    return p3, f3, clean

def run_check(prop, tier, only=None, jobs=14, show=None):
    t0 = time.time()
    seed = int(os.environ.get('VERIF_SEED', '0') or 0)
    evpath = os.path.join(os.environ.get('VERIF_EVIDENCE_DIR', os.path.join(VERIF, 'evidence')), prop + '.json')
    if only: evpath = os.path.join(engine.BUILD, 'evidence_partial', prop + '.json')      # a partial (development) run never replaces the property's evidence
    specs = sorted(glob.glob(os.path.join(VERIF, 'contracts', prop, '*.spec.c')))
    if not specs:
        print('UNDECIDED property=%s reason=no contracts for this property' % prop); return 2
    cxxast.prune_cache()
    undecided = []
    units = []
    for s in specs:
        try: units.append(engine.Unit(prop, s))
        except engine.Undecided as e: undecided.append(('%s' % os.path.basename(s), str(e)))
    tus = sorted(set(t for u in units for t in u.tus))
    with ThreadPoolExecutor(max(1, min(jobs, len(tus) or 1))) as ex:
        list(ex.map(cxxast.dump, tus))
    index_cache = {}
    built = []
    for u in units:
        try:
            u.build(index_cache); built.append(u)
        except engine.Undecided as e:
            undecided.append((u.name, str(e)))
        except Exception as e:   # lowering bug: never a verdict
            undecided.append((u.name, 'internal error while lowering: %r' % e))
    if show:
        for n, w in undecided: print('UNDECIDED unit=%s reason=%s' % (n, w))
        for u in built:
            if u.name == show: print(open(u.unit_c).read())
        return 0
    work = [(u, p) for u in built for p in u.proofs if (not only or p.target in only) and not getattr(p, 'vanished', False)]
    if tier == 'quick':
        work = [(u, p) for (u, p) in work if p.opts.get('tier', 'quick') == 'quick']
    def go(up):
        u, p = up
        try: u.prove(p)
        except Exception as e:
            p.status = 'UNDECIDED'; p.reason = 'internal error: %r' % e
        return up
    with ThreadPoolExecutor(jobs) as ex:
        list(ex.map(go, work))
    # thorough tier: every proved unit re-discharged on a second back end
    second = []
    if tier == 'thorough':
        def go2(up):
            u, p = up
            if p.status != 'PROVED': return None
            alt = 'sat' if p.opts.get('solver', 'cadical') == 'cadical' else 'cadical'
            p2 = engine.Proof(p.kind, p.target, dict(p.opts, solver=alt, canary='0'))
            st, reason, results, log, dt = u.run_proof(p2)
            ok = st == 'DONE' and all(r['status'] == 'SUCCESS' for r in results)
            return {'proof': p.target, 'backend': alt, 'agrees': ok, 'seconds': round(dt, 1), 'note': reason}
        with ThreadPoolExecutor(jobs) as ex:
            second = [x for x in ex.map(go2, work) if x]

    kf_all = load_findings()
    findings = kf_all.get('findings', [])
    violations = []; known_hits = []; obligations = 0; discharged = 0; bounded = []; standin_lines = []
    samples = []; proofs_ev = []; solver_s = 0.0
    for u, p in work:
        solver_s += p.seconds
        rec = {'unit': u.name, 'proof': p.target, 'kind': p.kind, 'status': p.status, 'obligations': len(p.results),
               'failed': sum(1 for r in p.results if r['status'] != 'SUCCESS'), 'seconds': round(p.seconds, 1),
               'backend': {'cadical': 'SAT: cadical (cbmc built-in)', 'sat': 'SAT: minisat (cbmc built-in)'}.get(p.opts.get('solver', 'cadical'), p.opts.get('solver')), 'replaced_contracts': p.replaced,
               'canary_reached_end': p.canary_ok, 'loop_contract_obligations': sum(1 for r in p.results if 'loop_invariant' in r.get('property', '') or 'loop invariant' in r.get('description', ''))}
        if p.bounded: rec['bounded'] = 'unwind=%s with unwinding assertions (bounded stand-in, not counted as proved)' % p.opts['unwind']
        proofs_ev.append(rec)
        if p.status == 'UNDECIDED':
            loose0 = u.unannotated_loops(p) if p.reach_bodies else []
            if loose0 and re.search(r'timeout|out of memory|no result|crash', p.reason, re.I):
                # the havoc abstraction of loops whose contracts no longer apply made the proof too big: same bounded stand-in as below
                p3, f3, clean3 = standin(u, p); solver_s += p3.seconds
                if clean3:
                    bounded.append({'proof': p.target, 'unwind': str(FALLBACK_UNWIND), 'obligations': len(p3.results), 'failed': 0,
                                    'reason': 'loop contract(s) %s of the sidecar do not apply to the current shape of the code and the proof without them exceeds the resource limits (%s); bounded stand-in: no loop contracts, every loop unwound %d times' % (', '.join(loose0), p.reason[:80], FALLBACK_UNWIND)})
                    standin_lines.append('BOUNDED property=%s unit=%s:%s loop contracts do not match the code shape (%s); bounded stand-in (unwind %d, no unwinding assertions) discharged %d obligations: not counted as proved'
                                         % (prop, u.name, p.target, ', '.join(loose0), FALLBACK_UNWIND, len(p3.results)))
                    continue
            undecided.append((u.name + ':' + p.target, p.reason)); continue
        fails = [r for r in p.results if r['status'] != 'SUCCESS']
        if p.bounded:
            bounded.append({'proof': p.target, 'unwind': p.opts['unwind'], 'obligations': len(p.results), 'failed': len(fails)})
        else:
            obligations += len(p.results); discharged += len(p.results) - len(fails)
        if len(samples) < 6 and p.results:
            for r in p.results:
                if 'postcondition' in r.get('property', '') or 'loop_invariant' in r.get('property', ''):
                    samples.append(obligation_record(u, p, r)); break
        unknown = []
        mach = [r for r in fails if machinery_failure(r)]
        if mach and u.unannotated_loops(p):
            mach = []      # arbitrary (havocked) state after a loop without contract reached a model: settled by replay / the bounded stand-in below
        if mach:
            undecided.append((u.name + ':' + p.target, 'check failed inside a contract/model expression (machinery, not a verdict): %s %s' % (mach[0].get('property'), mach[0].get('description'))))
            fails = [r for r in fails if not machinery_failure(r)]
        for r in fails:
            kf = match_finding(findings, prop, p, r)
            if kf: known_hits.append((kf, u, p, r))
            else: unknown.append(r)
        if unknown and any(k.get('exclude_define') and pp is p for k, _, pp, _ in known_hits) and u.unannotated_loops(p):
            # reshaped code (loops without matching contract) AND a recorded finding in the same proof: the other failures of this run are no
            # verdict by themselves; everything is settled on the run with the recorded input class excluded (below)
            unknown = []
        if unknown:
            violations.append((u, p, unknown))
    # a known finding suppresses only its recorded input class: re-run with the class excluded
    kf_done = set()
    for kf, u, p, r in known_hits:
        key = (kf['id'], p.target)
        if key in kf_done: continue
        kf_done.add(key)
        if kf.get('exclude_define'):
            p2 = engine.Proof(p.kind, p.target, dict(p.opts, define=kf['exclude_define'], canary='1'))
            u.prove(p2)
            solver_s += p2.seconds
            if p2.status == 'UNDECIDED':
                undecided.append((u.name + ':' + p.target + '[known-finding class excluded]', p2.reason))
            else:
                f2 = [x for x in p2.results if x['status'] != 'SUCCESS']
                proofs_ev.append({'unit': u.name, 'proof': p.target + ' [with -D%s: recorded failing class excluded]' % kf['exclude_define'],
                                  'status': p2.status, 'obligations': len(p2.results), 'failed': len(f2), 'seconds': round(p2.seconds, 1)})
                # count the run with the class excluded as the proof run for this unit
                obligations += len(p2.results) - len(p.results)
                discharged += (len(p2.results) - len(f2)) - (len(p.results) - sum(1 for x in p.results if x['status'] != 'SUCCESS'))
                if f2:
                    violations.append((u, p2, f2))
    rc = 0
    out_lines = list(standin_lines)
    for kf in {k['id']: k for k, _, _, _ in known_hits}.values():
        out_lines.append('KNOWN-FINDING: property=%s %s' % (prop, kf['what']))
    replay_paths = []
    nviol = 0
    for u, p, fails in violations:
        path, reproduced = make_replay(prop, u, p, fails)
        replay_paths.append(path)
        loose = u.unannotated_loops(p)
        if not reproduced and loose:
            # undischarged != violated: the proof contains loops that the sidecar does not annotate (new or reshaped code), abstracted by
            # havoc; without a failing input on the real code this is not a verdict.  BOUNDED STAND-IN: the same function and contract
            # with NO loop contract at all, every loop unwound FALLBACK_UNWIND times (longer executions cut off): if that discharges
            # everything the property held on everything explored (labelled bounded, never counted as proved); if it fails as well and
            # no failing input exists on the real code, the result is undecided (the sidecar may simply not fit the new code shape)
            p3, f3, clean3 = standin(u, p); solver_s += p3.seconds
            if clean3:
                bounded.append({'proof': p.target, 'unwind': str(FALLBACK_UNWIND), 'obligations': len(p3.results), 'failed': 0,
                                'reason': 'loop contract(s) %s of the sidecar do not apply to the current shape of the code; bounded stand-in: no loop contracts, every loop unwound %d times, longer executions not explored' % (', '.join(loose), FALLBACK_UNWIND)})
                out_lines.append('BOUNDED property=%s unit=%s:%s loop contracts do not match the code shape (%s); bounded stand-in (unwind %d, no unwinding assertions) discharged %d obligations: not counted as proved'
                                 % (prop, u.name, p.target, ', '.join(loose), FALLBACK_UNWIND, len(p3.results)))
                continue
            if p3.status != 'UNDECIDED' and f3:
                # the stand-in run fails too, but no failing input exists on the real code (replay above): for RESHAPED code the sidecar's
                # models may simply not fit the new shape, so this is reported as undecided, never as a violation
                undecided.append((u.name + ':' + p.target, 'obligation %s failed with the sidecar\'s loop contracts not matching the code shape (%s); the bounded stand-in (unwind %d) fails %s as well; native replay found no failing input: undischarged, not a verdict (replay file %s)'
                                  % (fails[0].get('property'), ', '.join(loose), FALLBACK_UNWIND, f3[0].get('property'), path)))
                continue
            undecided.append((u.name + ':' + p.target, 'obligation %s failed, but the proof contains loop(s) without a loop contract (%s) and native replay found no failing input: undischarged, not a verdict (replay file %s)'
                              % (fails[0].get('property'), ', '.join(loose), path)))
            continue
        line = 'VIOLATION property=%s replay=%s' % (prop, path)
        if not reproduced: line += ' obligation=%s no-failing-input-found' % fails[0].get('property')
        out_lines.append(line)
        nviol += 1
        rc = 1
    # the deductive check is undecided (lowering/model gap, reshaped code, timeout) and reported no violation: the property's native
    # replay search still runs on the real code; a failing input it finds IS a violation (a real input on the real code), its silence
    # decides nothing
    native_search = None
    if (undecided or tier == 'thorough' or prop in QUICK_NATIVE) and rc == 0 and os.path.exists(os.path.join(VERIF, 'replay', prop + '.py')):
        d = os.path.join(engine.BUILD, 'replay', prop); os.makedirs(d, exist_ok=True)
        path = os.path.join(d, 'undecided.search.json' if undecided else 'native.search.json')
        rec = {'property': prop, 'statement': PROPS.get(prop, {}).get('statement'), 'undecided': [{'unit': n, 'reason': w[:400]} for n, w in undecided],
               'note': ('the contract proof could not be completed on this tree (see undecided); this failing input was found by the native replay search on the real code' if undecided else
                        'every contract obligation was discharged; this failing input was found by the bounded native replay search on the real code (part of the property is not carried by the contracts, see level_note)')}
        try:
            spec = importlib.util.spec_from_file_location('replay_' + prop, os.path.join(VERIF, 'replay', prop + '.py'))
            mod = importlib.util.module_from_spec(spec); spec.loader.exec_module(mod)
            reproduced, text = mod.replay(rec, os.path.join(d, 'native'))
        except Exception as e:
            reproduced, text = False, 'replay driver failed: %r' % e
        rec['native_replay'] = {'reproduced': reproduced, 'output': text}
        native_search = {'kind': 'bounded native search on the real code (proves nothing)', 'driver': 'replay/%s.py' % prop, 'failing_input_found': bool(reproduced), 'output_tail': text[-600:]}
        if reproduced:
            json.dump(rec, open(path, 'w'), indent=1)
            out_lines.append('VIOLATION property=%s replay=%s' % (prop, path))
            nviol += 1; rc = 1
    for name, why in undecided:
        out_lines.append('UNDECIDED property=%s unit=%s reason=%s' % (prop, name, why.replace('\n', ' ')[:600]))
    if undecided and rc == 0: rc = 2
    # evidence
    fns = {}
    trusted = set(); lowering_rules = {}
    for u in built:
        for c, fi in u.fninfos.items():
            src = fi.file or ''
            fns[c] = {'qualified_name': fi.qname, 'source': '%s:%s' % (src.replace('/repo/', ''), fi.line),
                      'under_contract': any(p.target == c and p.kind == 'enforce' for p in u.proofs),
                      'loops': len(fi.loops)}
        for e in u.extern: trusted.add(e)
        for r, c in u.rules.items(): lowering_rules[r] = lowering_rules.get(r, 0) + c
    scan = assumption_scan(prop)
    level_note = []
    ev = {
        'property_id': prop, 'tier': tier, 'seed': seed, 'level': 'proof',
        'coverage': {
            'obligations': obligations, 'discharged': discharged,
            'checker_cmd': (work[0][1].cmds and ' && '.join(work[0][1].cmds) or 'goto-cc | goto-instrument --dfcc | cbmc') if work else '',
            'trusted_base': sorted(trusted) + scan['model_contracts'],
            'samples': samples,
            'functions_lowered_from_repo': fns,
            'functions_under_contract': sorted(c for c, v in fns.items() if v['under_contract']),
            'proofs': proofs_ev,
            'bounded_stand_ins': bounded,
            'second_backend': second,
            'native_search': native_search,
            'solver_seconds_total': round(solver_s, 1),
            'lowering_rule_applications': lowering_rules,
            'lowering_drops': ['comments', 'access control', 'const/noexcept/override/inline', 'destructors of non-RAII value types',
                               'move-vs-copy distinction', 'static-initialisation guards', 'default arguments of external callees (model stands for the call with defaults)'],
            'known_findings_printed': [k['id'] for k in {k['id']: k for k, _, _, _ in known_hits}.values()],
            'undecided': [{'unit': n, 'reason': w[:300]} for n, w in undecided],
            'lemma_preconditions': scan['lemma_requires'],
            'explanation': 'obligations = CBMC properties of all non-bounded proofs (contract pre/postconditions, assigns/frees frames, loop invariant base/step, decreases, pointer/bounds/overflow/conversion checks) on the C lowered from the real functions on this run',
        },
        'assumptions': GLOBAL_ASSUMPTIONS + scan['notes'] + property_assumptions(prop),
        'wall_s': round(time.time() - t0, 1),
        'violations': nviol,
    }
    os.makedirs(os.path.dirname(evpath), exist_ok=True)
    json.dump(ev, open(evpath, 'w'), indent=1)
    for l in out_lines: print(l)
    print('%s tier=%s: %d proofs, %d obligations, %d discharged, %d bounded stand-ins, %d known findings, %d violations, %d undecided, %.0fs wall (%.0fs solver)'
          % (prop, tier, len(work), obligations, discharged, len(bounded), len(kf_done), nviol, len(undecided), time.time() - t0, solver_s))
    return rc

def property_assumptions(prop):
    out = []
    p = os.path.join(VERIF, 'contracts', prop, 'ASSUMPTIONS.txt')
    if os.path.exists(p):
        out += [l.strip() for l in open(p) if l.strip() and not l.startswith('#')]
    # the per-property note of the claims table (what is assumed / not decided), the same text as MANIFEST level_note
    try:
        spec = importlib.util.spec_from_file_location('manifest_table', os.path.join(VERIF, 'tools', 'manifest_table.py'))
        mod = importlib.util.module_from_spec(spec); spec.loader.exec_module(mod)
        note = mod.CLAIMS.get(prop, {}).get('note')
        if note: out.append('property-specific (claims table): ' + note)
    except Exception:
        pass
    return out

def assumption_scan(prop):
    """Mechanical scan of sidecars and models for assumptions (DESIGN 2.6)."""
    notes = []; lemma = []; models = []
    files = glob.glob(os.path.join(VERIF, 'contracts', prop, '*.spec.c'))
    for f in files:
        txt = open(f).read()
        part1 = txt.split('//@ ---')[0]
        for m in re.finditer(r'^\s*(?:static inline\s+)?[\w \*]+?\b(\w+)\s*\([^;{]*\)\s*(?:__CPROVER_\w+\s*\(|\{)', part1, re.M):
            models.append('model (sidecar %s): %s' % (os.path.basename(f), m.group(1)))
        for ln, line in enumerate(txt.splitlines(), 1):
            if 'LEMMA_REQUIRES' in line: lemma.append('%s:%d %s' % (os.path.basename(f), ln, line.strip()))
            if '__CPROVER_assume' in line:
                notes.append('explicit assumption in %s:%d: %s' % (os.path.basename(f), ln, line.strip()))
            if 'unwind=' in line and '//@' in line:
                notes.append('bounded stand-in declared in %s:%d: %s' % (os.path.basename(f), ln, line.strip()))
    # shared headers and models the sidecars include (transitively): every __CPROVER_assume there is an assumption of a TRUSTED model
    seen = set(); todo = list(files)
    while todo:
        f = todo.pop()
        if f in seen or not os.path.exists(f): continue
        seen.add(f)
        txt = open(f).read()
        for inc in re.findall(r'#\s*include\s+"((?:contracts|models)/[^"]+)"', txt):
            todo.append(os.path.join(VERIF, inc))
        if f not in files:
            n = txt.count('__CPROVER_assume'); k = len(re.findall(r'^static inline ', txt, re.M)); c = len(re.findall(r'__CPROVER_ensures', txt))
            notes.append('trusted header %s: %d model function(s), %d explicit __CPROVER_assume, %d ensures clause(s) of bodyless (assumed or separately proved) contracts'
                         % (os.path.relpath(f, VERIF), k, n, c))
    return {'notes': notes, 'lemma_requires': lemma, 'model_contracts': sorted(set(models))}

# ---------------------------------------------------------------------- replay
def make_replay(prop, unit, proof, fails):
    """Write the replay file for a violation; try the native replay driver of the property."""
    d = os.path.join(engine.BUILD, 'replay', prop)
    os.makedirs(d, exist_ok=True)
    path = os.path.join(d, '%s.%s.json' % (unit.name, proof.target))
    trace = cbmc_trace(unit, proof, fails[0])
    rec = {'property': prop, 'unit': unit.name, 'proof': proof.target,
           'failed_obligations': [obligation_record(unit, proof, r) for r in fails[:20]],
           'verifier_cmds': proof.cmds, 'counterexample': trace,
           'statement': PROPS.get(prop, {}).get('statement')}
    reproduced = False
    drv = os.path.join(VERIF, 'replay', prop + '.py')
    if os.path.exists(drv):
        try:
            spec = importlib.util.spec_from_file_location('replay_' + prop, drv)
            mod = importlib.util.module_from_spec(spec); spec.loader.exec_module(mod)
            reproduced, text = mod.replay(rec, os.path.join(d, 'native'))
            rec['native_replay'] = {'reproduced': reproduced, 'output': text}
        except Exception as e:
            rec['native_replay'] = {'reproduced': False, 'output': 'replay driver failed: %r' % e}
    else:
        rec['native_replay'] = {'reproduced': False, 'output': 'no native replay driver for this property'}
    if not reproduced:
        rec['note'] = 'no-failing-input-found: the failed obligation is reported with the verifier output; the counterexample did not reproduce on the real code (counterexample to induction from a havocked loop state, over-approximating model, or no driver)'
    json.dump(rec, open(path, 'w'), indent=1)
    return path, reproduced

def cbmc_trace(unit, proof, r):
    """Re-run CBMC for the first failed obligation with --trace and keep the assignments to inputs/ghosts."""
    tag = proof.harness
    gb2 = os.path.join(unit.dir, tag + '.2.gb')
    if not os.path.exists(gb2): return None
    cmd = ['cbmc', gb2, '--object-bits', proof.opts.get('objbits', '12'), '--bounds-check', '--pointer-check', '--signed-overflow-check',
           '--conversion-check', '--div-by-zero-check', '--undefined-shift-check', '--json-ui', '--verbosity', '4', '--trace', '--property', r.get('property')]
    if 'unwind' in proof.opts: cmd += ['--unwind', proof.opts['unwind']]
    try:
        out = subprocess.run(cmd, capture_output=True, text=True, timeout=600).stdout
        msgs = json.loads(out)
    except Exception as e:
        return {'error': repr(e)}
    steps = []
    for m in msgs:
        for res in m.get('result', []) if isinstance(m, dict) else []:
            for st in res.get('trace', []):
                if st.get('stepType') == 'assignment' and not st.get('hidden'):
                    lhs = st.get('lhs', '')
                    if lhs.startswith('__CPROVER') or 'return_value' in lhs and False: continue
                    v = st.get('value', {})
                    val = v.get('data', v.get('name'))
                    if isinstance(v, dict) and 'members' in v:
                        val = {mm['name']: mm['value'].get('data') for mm in v['members'] if isinstance(mm.get('value'), dict)}
                    sl = st.get('sourceLocation', {})
                    steps.append({'lhs': lhs, 'value': val, 'line': sl.get('line'), 'file': sl.get('file'), 'function': sl.get('function')})
    return {'assignments': steps[-400:]}

def replay_file(prop, path):
    rec = json.load(open(path))
    print(json.dumps({k: rec[k] for k in rec if k != 'counterexample'}, indent=1))
    drv = os.path.join(VERIF, 'replay', prop + '.py')
    if os.path.exists(drv):
        spec = importlib.util.spec_from_file_location('replay_' + prop, drv)
        mod = importlib.util.module_from_spec(spec); spec.loader.exec_module(mod)
        ok, text = mod.replay(rec, os.path.join(os.path.dirname(path), 'native'))
        print(text)
        return 1 if ok else 0
    return 0
